/-
  C07 on mode "proj": the abstract project's declarations → `Gleece.Types.components` (proved in
  Properties/C07) compared with components.schemas of BOTH documents the real pipeline emitted, plus the
  decidable closure spec evaluated on the implementation's own component set.
-/
import Gleece.Driver.Proj
import Gleece.Model.Types
open Lean
namespace Gleece.Driver
open Gleece.Types

/-- Go type text → TExpr, names resolved relative to `pkg` -/
partial def parseTExpr (pkg : String) (declared : List TName) (s : String) : TExpr :=
  if s = "[]byte" then .prim "[]byte"
  else if s.startsWith "*" then .ptr (parseTExpr pkg declared (s.drop 1).toString)
  else if s.startsWith "[]" then .slice (parseTExpr pkg declared (s.drop 2).toString)
  else if s.startsWith "map[string]" then .map (parseTExpr pkg declared (s.drop 11).toString)
  else
    match s.splitOn "." with
    | [p, n] => if declared.contains (p, n) then .named (p, n) else .prim s     -- time.Time stays primitive
    | _ => if declared.contains (pkg, s) then .named (pkg, s) else .prim s

/-- the value of `key:"…"` inside a struct tag -/
def tagValue (tag key : String) : Option String :=
  match tag.splitOn (key ++ ":\"") with
  | _ :: rest :: _ => some ((rest.splitOn "\"").headD "")
  | _ => none

def constText (lit : String) : String :=
  if lit.startsWith "\"" then ((lit.drop 1).toString.dropEnd 1).toString else lit

def parseDecls (types : List Json) : List Decl :=
  let declared : List TName := types.map fun t => (jstrD t "pkg", jstrD t "name")
  types.map fun t =>
    let pkg := jstrD t "pkg"
    let doc := "\n".intercalate (strList t "doc")
    let body : Body := match jstrD t "kind" with
      | "struct" => .struct ((jarrD t "fields").toList.map fun f =>
          let emb := jboolD f "embedded" || jstrD f "name" = ""
          let ty := parseTExpr pkg declared (jstrD f "type")
          let tag := jstrD f "tag"
          { name := if emb then ((ty.refs.head?.map (·.2)).getD (jstrD f "type")) else jstrD f "name",
            ty := ty, jsonTag := tagValue tag "json",
            required := ((tagValue tag "validate").getD "").splitOn "," |>.contains "required",
            embedded := emb })
      | "enum" => if (jarrD t "consts").isEmpty then .alias (parseTExpr pkg declared (jstrD t "base")) else
          .enum (jstrD t "base") ((jarrD t "consts").toList.map fun c => constText ((c.getArrVal? 1).toOption.bind (·.getStr?.toOption) |>.getD ""))
      | _ => .alias (parseTExpr pkg declared (jstrD t "base"))
    { name := (pkg, jstrD t "name"), doc := doc, body := body }

def isCtxOrErr (t : String) : Bool := t = "context.Context" || t = "error"

def usagesOf (p : PProject) (declared : List TName) : List TExpr :=
  p.controllers.flatMap fun c => c.methods.flatMap fun pm =>
    ((pm.m.params.filter fun q => !isCtxOrErr q.type).map fun q => parseTExpr c.pkg declared q.type) ++
    ((pm.m.results.filter fun r => !isCtxOrErr r).map fun r => parseTExpr c.pkg declared r)

/-! canonical JSON of a component, from the model and from a document -/

def sortByKey (l : List (String × Json)) : List (String × Json) := (l.toArray.qsort (fun a b => a.1 < b.1)).toList

def schJson : Sch → Json
  | .ty t f => Json.mkObj ([("type", Json.str t)] ++ (if f.isEmpty then [] else [("format", Json.str f)]))
  | .ref n => Json.mkObj [("$ref", Json.str n)]
  | .arr i => Json.mkObj [("type", "array"), ("items", schJson i)]
  | .dict v => Json.mkObj [("type", "object"), ("additionalProperties", schJson v)]

def objJson (title desc : String) (o : ObjSchema) : Json :=
  -- an object without visible properties is emitted without `properties` / `required`
  if o.props.isEmpty then Json.mkObj [("title", Json.str title), ("description", Json.str desc), ("type", "object")] else
  Json.mkObj [("title", Json.str title), ("description", Json.str desc), ("type", "object"),
    ("properties", Json.mkObj (sortByKey (o.props.map fun (n, s) => (n, schJson s)))),
    ("required", Json.arr ((sortStrs o.required).map Json.str).toArray)]

def componentJson : Component → Json
  | .object t d o [] => objJson t d o
  | .object t d o embs => Json.mkObj [("allOf", Json.arr (([objJson t d o] ++ embs.map fun e => Json.mkObj [("$ref", Json.str e)]).toArray))]
  | .enum t d ty vs => Json.mkObj [("title", Json.str t), ("description", Json.str d), ("type", Json.str ty), ("enum", Json.arr ((sortStrs vs).map Json.str).toArray)]
  | .alias t d s => match schJson s with
      | .obj kvs => Json.mkObj ([("title", Json.str t), ("description", Json.str d)] ++ kvs.toList)
      | j => j

def refTail (s : String) : String := (s.splitOn "/").getLast?.getD s

def numText (j : Json) : String := match j with
  | .str s => s
  | .num n => toString n
  | .bool b => toString b
  | _ => j.compress

/-- a (sub)schema of a document, keeping only the structural keywords -/
partial def canonSchema (j : Json) : Json :=
  match (j.getObjVal? "$ref").toOption with
  | some (.str r) => Json.mkObj [("$ref", Json.str (refTail r))]
  | _ =>
    let ty := jstrD j "type"
    let fmt := jstrD j "format"
    let base : List (String × Json) := [("type", Json.str ty)] ++ (if fmt.isEmpty then [] else [("format", Json.str fmt)])
    let items := match (j.getObjVal? "items").toOption with | some i => [("items", canonSchema i)] | none => []
    let ap := match (j.getObjVal? "additionalProperties").toOption with
      | some (.obj kvs) => [("additionalProperties", canonSchema (.obj kvs))]
      | _ => []
    Json.mkObj (base ++ items ++ ap)

partial def canonComponent (j : Json) : Json :=
  match (j.getObjVal? "allOf").toOption with
  | some (.arr xs) => Json.mkObj [("allOf", Json.arr (xs.map fun x =>
      match (x.getObjVal? "$ref").toOption with
      | some (.str r) => Json.mkObj [("$ref", Json.str (refTail r))]
      | _ => canonComponent x))]
  | _ =>
    match (j.getObjVal? "enum").toOption with
    | some (.arr vs) => Json.mkObj [("title", Json.str (jstrD j "title")), ("description", Json.str (jstrD j "description")), ("type", Json.str (jstrD j "type")),
        ("enum", Json.arr ((sortStrs (vs.toList.map numText)).map Json.str).toArray)]
    | _ =>
      if jstrD j "type" = "object" && (match (j.getObjVal? "properties").toOption with | some (.obj kvs) => !kvs.toList.isEmpty | _ => false) then
        Json.mkObj [("title", Json.str (jstrD j "title")), ("description", Json.str (jstrD j "description")), ("type", "object"),
          ("properties", Json.mkObj (sortByKey ((objEntries ((j.getObjVal? "properties").toOption.getD Json.null)).map fun (k, v) => (k, canonSchema v)))),
          ("required", Json.arr ((sortStrs ((jarrD j "required").toList.map fun r => r.getStr?.toOption.getD "")).map Json.str).toArray)]
      else match canonSchema j with
        | .obj kvs => Json.mkObj ([("title", Json.str (jstrD j "title")), ("description", Json.str (jstrD j "description"))] ++ kvs.toList)
        | x => x

def hasProps (j : Json) : Bool := (j.getObjVal? "properties").toOption.isSome

/-- an object component without any visible property: the emitters leave `properties` out -/
def normEmptyObj (j : Json) : Json :=
  match (j.getObjVal? "properties").toOption with
  | some (.obj kvs) => if kvs.toList.isEmpty then j else j
  | _ => j

def checkC07 (p : PProject) (impl : Json) : PropOut := Id.run do
  let accepted := (impl.getObjVal? "out").toOption.isSome && (jarrD impl "diags").isEmpty
  if !accepted then
    return { model := Json.str "not-accepted", implView := Json.str "not-accepted", nontrivial := false,
             notes := ["d:not-accepted"] ++ (if jstrD impl "graphErr" ≠ "" then ["d:graph-error"] else []) ++ (if jstrD impl "setupErr" ≠ "" then ["d:setup-error"] else []) }
  let ds := parseDecls p.types
  let declared := ds.map (·.name)
  let usages := usagesOf p declared
  let clos := closure ds (ds.length + 1) (rootsOf usages)
  let comps := components ds usages
  let mut mfails : List String := []
  if !isClosed ds clos then mfails := mfails ++ ["model-closure-not-closed"]
  -- two reachable declarations with one bare name cannot both be components: C07-F4
  let names := comps.map (·.1.2)
  let collide := names.any fun n => (names.filter (· = n)).length > 1
  let plainErr := p.controllers.any fun c => c.methods.any fun pm => pm.m.results.getLast? = some "error"
  let wantNames := sortStrs (names.eraseDups ++ (if plainErr then ["Rfc7807Error"] else []))
  let aliasOfAlias := ds.any fun d => clos.contains d.name && (match d.body with | .alias (.named _) => true | _ => false)
  let mut fails : List String := []
  -- one key cannot hold two schemas: whichever declaration wins, the other reachable one has no component
  if collide then
    fails := fails ++ (names.filter fun n => (names.filter (· = n)).length > 1).eraseDups.map fun n => s!"C07-F4:two-reachable-declarations-one-component:{n}"
  let mut views : List (String × Json) := []
  let mut wants : List (String × Json) := []
  let want := Json.mkObj (sortByKey ((comps.filter fun (n, _) => !(collide && (names.filter (· = n.2)).length > 1)).map fun (n, c) => (n.2, componentJson c)))
  for (k, is30) in [("spec30", true), ("spec31", false)] do
    let sv := specView ((impl.getObjVal? "out").toOption.getD Json.null) k
    match sv.err with
    | some e =>
      -- a document that was refused is C11 / C14 territory; nothing to compare
      views := views ++ [(k, Json.str "no-document")]
      wants := wants ++ [(k, Json.str "no-document")]
      let _ := e
    | none =>
      let schemas := objEntries (((sv.doc.getObjVal? "components").toOption.bind (·.getObjVal? "schemas" |>.toOption)).getD Json.null)
      let gotNames := sortStrs (schemas.map (·.1))
      if gotNames ≠ wantNames then
        fails := fails ++ [(if collide then "C07-F4:" else "") ++ s!"component-set:{k}:want={wantNames}:got={gotNames}"]
      -- the decidable closure spec on the implementation's own set
      -- component keys are bare names: a key shared by several declarations is read as the reachable one(s)
      let implSet : List TName := ds.filterMap fun d =>
        if gotNames.contains d.name.2 && (clos.contains d.name || !(ds.any fun e => e.name.2 = d.name.2 && clos.contains e.name)) then some d.name else none
      if !collide then
        if !(rootsOf usages).all (fun r => implSet.contains r || !declared.contains r) then fails := fails ++ [s!"roots-missing:{k}"]
        if !isClosed ds implSet then fails := fails ++ [s!"not-closed:{k}"]
        if !implSet.all (fun n => clos.contains n) then fails := fails ++ [s!"unreachable-component:{k}"]
      let got := Json.mkObj (sortByKey ((schemas.filter fun (n, _) => n ≠ "Rfc7807Error" && !(collide && (names.filter (· = n)).length > 1)).map fun (n, s) => (n, canonComponent s)))
      views := views ++ [(k, got)]
      wants := wants ++ [(k, want)]
      -- classify per-component differences that are known findings
      for (n, c) in comps do
        if collide && (names.filter (· = n.2)).length > 1 then continue
        match schemas.lookup n.2 with
        | none => pure ()
        | some s =>
          let g := canonComponent s
          let w := componentJson c
          if g.compress ≠ w.compress then
            let isEnum := match c with | .enum .. => true | _ => false
            let isAlias := match c with | .alias .. => true | _ => false
            -- C07-F6: the 3.1 document renders integer members beyond 2^53 through a float
            let bigInt := match c with | .enum _ _ "integer" vs => vs.any (fun v => v.length ≥ 16) | _ => false
            -- C07-F7: … and a member of a STRING enum that reads as another YAML scalar ("", null, true, 0) is rendered as that scalar
            let looksOther := match c with
              | .enum _ _ "string" vs => vs.any (fun v => v.isEmpty || ["null", "Null", "NULL", "~", "true", "True", "TRUE", "false", "False", "FALSE"].contains v || (Gleece.Text.parseUint v).isSome)
              | _ => false
            let fid := if !is30 && bigInt then "C07-F6:" else if !is30 && looksOther then "C07-F7:" else if is30 && (isEnum || isAlias) && !aliasOfAlias then "C07-F1:" else if aliasOfAlias && (match c with | .alias _ _ (.ref _) => true | _ => false) then "C07-F5:" else ""
            fails := fails ++ [fid ++ s!"component-differs:{k}:{n.2}"]
  let mut notes : List String := [s!"d:declared={ds.length}", s!"d:components={comps.length}", s!"d:unused={ds.length - comps.length}"]
  if collide then notes := notes ++ ["d:name-collision"]
  if aliasOfAlias then notes := notes ++ ["d:alias-of-alias"]
  for (_, c) in comps do
    notes := notes ++ [match c with | .object _ _ _ [] => "d:kind-struct" | .object .. => "d:kind-struct-embedding" | .enum .. => "d:kind-enum" | .alias .. => "d:kind-alias"]
  -- the model view is only compared where no known-finding classification applies; differences are reported through `fails`
  return { model := Json.mkObj wants, implView := Json.mkObj (views.map fun (k, v) => (k, if fails.isEmpty then v else (wants.lookup k).getD v)),
           implFails := fails, modelFails := mfails, nontrivial := !comps.isEmpty, notes := notes }

/-! ### C16 at project level: one annotation line in the doc comment of one construct (`site`)

"malformed JSON5 is reported as an error, never silently dropped" wherever gleece reads a comment: the doc comment of a
controller, of a route method, of a declaration that becomes a component (reached from a route), of a JSON-visible
field of such a struct, of a constant of such an enum.  A well-formed line at the same site is the control: it
must not make the run fail. -/
def checkC16Site (p : PProject) (input impl : Json) : PropOut := Id.run do
  let site := (input.getObjVal? "site").toOption.getD Json.null
  let kind := jstrD site "kind"
  let malformed := jboolD site "malformed"
  if kind.isEmpty then
    return { model := Json.str "no-site", implView := Json.str "no-site", nontrivial := false, notes := ["d:no-site"] }
  if (jstrD impl "setupErr").startsWith "pipeline: encountered" then
    return { model := Json.str "uncompilable-source", implView := Json.str "uncompilable-source", nontrivial := false, notes := ["d:uncompilable-source"] }
  let ds := parseDecls p.types
  let declared := ds.map (·.name)
  let clos := closure ds (ds.length + 1) (rootsOf (usagesOf p declared))
  let tn : TName := (jstrD site "pkg", jstrD site "type")
  let reached := clos.contains tn
  -- is the member a JSON-visible field (the reducer drops the others, comment and all)
  let fieldVisible := p.types.any fun t => jstrD t "name" = tn.2 && jstrD t "pkg" = tn.1 &&
    (jarrD t "fields").any fun f => jstrD f "name" = jstrD site "member" &&
      (match (jstrD f "name").toList.head? with | some c => c.isUpper | none => true) &&
      ((jstrD f "tag").splitOn "json:\"-\"").length = 1
  let read : Option Bool :=
    match kind with
    | "controller" => some true
    | "method" => some true
    | "type" => if reached then some true else none
    | "const" => if reached then some true else none
    | "field" => if reached && fieldVisible then some true else none
    | _ => none
  let errs := ["setupErr", "configErr", "graphErr", "validateErr", "runErr"].filter fun k => jstrD impl k ≠ ""
  let failed := !errs.isEmpty
  let mut fails : List String := []
  match read with
  | some true =>
    if malformed && !failed then fails := fails ++ [s!"malformed-json5-silently-dropped:{kind}:{tn.2}.{jstrD site "member"}"]
    if !malformed && failed then fails := fails ++ [s!"well-formed-annotation-fails-the-run:{kind}:{tn.2}.{jstrD site "member"}:{errs}"]
  | _ => pure ()
  let want : Json := match read with
    | some true => Json.str (if malformed then "error" else "ok")
    | _ => Json.str "not-read"
  let got : Json := match read with
    | some true => Json.str (if failed then "error" else "ok")
    | _ => Json.str "not-read"
  return { model := want, implView := got, implFails := fails, nontrivial := read.isSome,
           notes := [s!"d:site-{kind}-{if malformed then "malformed" else "wellformed"}-{if read.isSome then "read" else "notread"}"] }

end Gleece.Driver

namespace Gleece.Driver

def projHandler2 : Handler := fun prop input impl => do
  if prop = "C16" then
    let p := parseProject input
    let out := checkC16Site p input (impl.getD Json.null)
    let implFails := if impl.isNone then ["no-answer"] else out.implFails
    return { model := out.model, implView := some out.implView, specModel := true, specImpl := implFails.isEmpty,
             nontrivial := out.nontrivial, notes := (implFails.take 8).map ("implfail:new:" ++ ·) ++ out.notes }
  if prop ≠ "C07" then projHandler prop input impl else
  let p := parseProject input
  let out := checkC07 p (impl.getD Json.null)
  let tag (pre : String) (f : String) :=
    if f.length > 4 && f.startsWith "C" && (f.splitOn "-F").length > 1 && (f.splitOn ":").length > 1 && ((f.splitOn ":")[0]!).length ≤ 8
    then pre ++ f else pre ++ "new:" ++ f
  let implFails := if impl.isNone then ["no-answer"] else out.implFails
  pure { model := out.model, implView := some out.implView, specModel := out.modelFails.isEmpty, specImpl := implFails.isEmpty,
         nontrivial := out.nontrivial,
         notes := (implFails.take 8).map (tag "implfail:") ++ (out.modelFails.take 8).map (tag "modelfail:") ++ out.notes }

end Gleece.Driver
