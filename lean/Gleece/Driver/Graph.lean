import Gleece.Driver.Common
import Gleece.Model.Graph
open Lean
namespace Gleece.Driver
open Gleece.Graph

def parseKey (j : Json) : Except String Key := do pure ⟨← jnat j "b", ← jnat j "v"⟩

def parseOp (j : Json) : Except String Op := do
  let op ← jstr j "op"
  match op with
  | "addNode" => pure (.addNode (← parseKey (← j.getObjVal? "k")) (if (← jstr j "kind") = "Alias" then "Alias" else "Constant"))
  | "addStruct" =>
    let fs ← (jarrD j "fields").toList.mapM parseKey
    pure (.addStruct (← parseKey (← j.getObjVal? "k")) fs)
  | "addEnum" =>
    let vs ← (jarrD j "values").toList.mapM parseKey
    pure (.addEnum (← parseKey (← j.getObjVal? "k")) ⟨← jnat j "prim", 0⟩ vs)
  | "addPrim" => pure (.addPrim (← parseKey (← j.getObjVal? "k")))
  | "addEdge" => pure (.addEdge (← parseKey (← j.getObjVal? "f")) (← parseKey (← j.getObjVal? "t")) (← jstr j "kind"))
  | "removeEdge" =>
    let k : Option String := (jstr j "ekind").toOption
    pure (.removeEdge (← parseKey (← j.getObjVal? "f")) (← parseKey (← j.getObjVal? "t")) k)
  | "removeNode" => pure (.removeNode (← parseKey (← j.getObjVal? "k")))
  | o => throw s!"unknown graph op {o}"

def keyUniverse (n : Nat) : List Nat := List.range n ++ [100, 101]

def natsJson (l : List Nat) : Json := Json.arr (l.map (fun (x : Nat) => (x : Json))).toArray

def dumpModel (g : G) (n : Nat) : Json :=
  let bases := keyUniverse n
  let existing := bases.filter g.hasNode
  let nodes := existing.filterMap fun b => (g.node? b).map fun nd =>
    Json.arr #[(b : Json), (nd.key.ver : Json), (nd.kind : Json)]
  let edges := bases.map fun b =>
    (toString b, Json.arr ((sortByOrd (getEdges g b)).map fun e =>
      Json.arr #[(e.src.base : Json), (e.kind : Json), (e.dst.base : Json), (e.ord : Json)]).toArray)
  let per (f : Nat → List Nat) := Json.mkObj (existing.map fun b => (toString b, natsJson (f b)))
  Json.mkObj [("nodes", Json.arr nodes.toArray), ("edges", Json.mkObj edges),
    ("children", per (children g)), ("parents", per (parents g)),
    ("desc", per (fun b => (descendants g b).mergeSort (· ≤ ·)))]

/-- reachability (one or more steps) in the abstract graph -/
def aDesc (a : A) (b : Nat) : List Nat :=
  let kids (x : Nat) := (a.edges.filter (fun e => e.src = x && a.has e.dst)).map (·.dst)
  let rec go (fuel : Nat) (frontier seen : List Nat) : List Nat :=
    match fuel with
    | 0 => seen
    | fuel + 1 =>
      let next := (frontier.flatMap kids).eraseDups.filter (fun c => !seen.contains c)
      if next.isEmpty then seen else go fuel next (seen ++ next)
  (go (a.nodes.length + 1) [b] []).mergeSort (· ≤ ·)

def sortNats (l : List Nat) : List Nat := l.mergeSort (· ≤ ·)

/-- the decidable spec: one dump (of the implementation or of the model) against the plain model `a`.
    Returns the list of violated clauses. -/
def checkDump (a : A) (n : Nat) (d : Json) : List String := Id.run do
  let mut bad : List String := []
  if (jstrD d "err") ≠ "" then bad := bad ++ ["err:" ++ jstrD d "err"]
  -- nodes
  let dn := (jarrD d "nodes").toList.filterMap fun x => do
    let arr ← x.getArr?.toOption
    pure ((← (arr[0]!).getNat?.toOption), (← (arr[1]!).getNat?.toOption), (← (arr[2]!).getStr?.toOption))
  let an := (keyUniverse n).filterMap fun b => a.nodes.find? (·.1 = b)
  if dn ≠ an then bad := bad ++ ["nodes"]
  let edgesObj := (d.getObjVal? "edges").toOption.getD Json.null
  let mut allE : List (Nat × String × Nat × Nat) := []
  for b in keyUniverse n do
    let es := (jarrD edgesObj (toString b)).toList.filterMap fun x => do
      let arr ← x.getArr?.toOption
      pure ((← (arr[0]!).getNat?.toOption), (← (arr[1]!).getStr?.toOption), (← (arr[2]!).getNat?.toOption), (← (arr[3]!).getNat?.toOption))
    allE := allE ++ es
    let got := es.map fun (f, k, t, _) => (⟨f, k, t⟩ : AEdge)
    let want := a.edges.filter fun e => e.src = b || e.dst = b
    if !(got.all want.contains && want.all got.contains && got.length = want.length) then
      bad := bad ++ [s!"edges[{b}]"]
  -- ordinals identify edges
  let distinctE := allE.eraseDups
  if !(distinctE.all fun (f, k, t, o) => distinctE.all fun (f', k', t', o') => (o = o') == (f = f' && k = k' && t = t')) then
    bad := bad ++ ["ordinals"]
  let chk (name : String) (want : Nat → List Nat) (sorted : Bool) : List String :=
    let obj := (d.getObjVal? name).toOption.getD Json.null
    (an.map (·.1)).filterMap fun b =>
      let got := (jarrD obj (toString b)).toList.filterMap (·.getNat?.toOption)
      -- children / parents are compared as SETS of nodes (Go returns one entry per edge, and per
      -- recorded parent key); descendants as a sorted duplicate-free list
      let g' := if sorted then got else sortNats got.eraseDups
      if g' = sortNats (want b).eraseDups && (obj.getObjVal? (toString b)).toOption.isSome then none else some s!"{name}[{b}]"
  bad := bad ++ chk "children" (fun b => (a.edges.filter (fun e => e.src = b && a.has e.dst)).map (·.dst)) false
  bad := bad ++ chk "parents" (fun b => (a.edges.filter (fun e => e.dst = b && a.has e.src)).map (·.src)) false
  bad := bad ++ chk "desc" (aDesc a) true
  return bad

def graphHandler : Handler := fun _prop input impl => do
  let n ← jnat input "n"
  let ops ← (← jarr input "ops").toList.mapM parseOp
  let implDumps : List Json := match impl with
    | some j => (j.getArr?.toOption.getD #[]).toList
    | none => []
  let mut g : Option G := some {}
  let mut a : A := {}
  let mut dumps : Array Json := #[]
  let mut failsM : List String := []
  let mut failsI : List String := []
  let mut i := 0
  let mut multiKind := false
  let mut versions := false
  for op in ops do
    g := g.bind (step · op)
    a := a.step op
    match g with
    | none => failsM := failsM ++ [s!"{i}:fuel"]; dumps := dumps.push Json.null
    | some g' =>
      let d := dumpModel g' n
      dumps := dumps.push d
      failsM := failsM ++ (checkDump a n d).map (s!"{i}:" ++ ·)
      if g'.edges.any (fun e => g'.edges.any fun e' => e.src.base = e'.src.base && e.dst.base = e'.dst.base && e.kind ≠ e'.kind) then multiKind := true
      if g'.nodes.any (·.key.ver > 1) then versions := true
    match implDumps[i]? with
    | some d => failsI := failsI ++ (checkDump a n d).map (s!"{i}:" ++ ·)
    | none => failsI := failsI ++ [s!"{i}:missing"]
    i := i + 1
  let notes := (failsI.take 6).map ("implfail:new:" ++ ·) ++ (failsM.take 6).map ("modelfail:new:" ++ ·)
    ++ [s!"d:len={ops.length / 10 * 10}+"] ++ (if multiKind then ["d:multi-kind-pair"] else []) ++ (if versions then ["d:version>1"] else [])
    ++ (if a.nodes.isEmpty then ["d:final-empty"] else [])
  pure { model := Json.arr dumps, specModel := failsM.isEmpty, specImpl := failsI.isEmpty && impl.isSome,
         nontrivial := ops.length ≥ 3 && !a.edges.isEmpty, notes }

end Gleece.Driver
