/-
  Mode "cli" (C14): one run of the real program in a child process.  The decidable spec `Gleece.Cli.Contract` is
  evaluated on what was observed; the model's answer is what a propagating wrapper makes of the in-process
  verdict of the same command (`Gleece.Cli.wrap true`), compared on the exit class.
-/
import Gleece.Driver.Common
import Gleece.Model.Cli
open Lean
namespace Gleece.Driver
open Gleece.Cli

def cmdOfKind : String → Cmd
  | "spec" => .spec | "routes" => .routes | "bare" => .bare | "dump-graph" => .dump | _ => .specAndRoutes

def cliHandler : Handler := fun prop input impl => do
  if prop ≠ "C14" then throw s!"mode cli: no check for property {prop}"
  let kind := jstrD input "kind"
  let c := cmdOfKind kind
  match impl with
  | none => pure { model := Json.str "answer", specModel := true, specImpl := false, nontrivial := true, notes := ["implfail:new:no-answer:" ++ kind] }
  | some o =>
    if !(jstrD o "setupErr").isEmpty then
      pure { model := Json.null, specModel := true, specImpl := true, nontrivial := false, notes := ["d:setup-error"] }
    else
    let exit : Int := ((o.getObjVal? "exit").toOption.bind (·.getInt?.toOption)).getD 0
    let r : Run := { exit := exit, timedOut := jboolD o "timedOut", panic := jboolD o "panic", reported := jboolD o "reported",
                     spec := jboolD o "spec", routes := jboolD o "routes" }
    let fnFailed := jboolD o "inProcErr"
    let ok := Contract c r
    -- the wrapper tells the caller what the function told it
    let want := if fnFailed then "fail" else "ok"
    let got := if exit = 0 then "ok" else "fail"
    let fails : List String :=
      (if r.timedOut then [s!"timeout:{kind}"] else []) ++
      (if r.panic then [s!"panic:{kind}:{(jstrD o "_tail").take 200}"] else []) ++
      (if !ok && !r.timedOut && !r.panic then
        [if exit = 0 then s!"exit-0-without-artifacts:{kind}:spec={r.spec}:routes={r.routes}:{(jstrD o "_tail").take 160}" else s!"non-zero-exit-without-message:{kind}"] else []) ++
      (if want ≠ got && !r.panic then [s!"exit-status-contradicts-function:{kind}:function={want}:exit={exit}"] else []) ++
      (if jboolD o "inProcPanic" then [s!"panic-in-process:{kind}"] else [])
    pure { model := Json.mkObj [("exit", want)], implView := some (Json.mkObj [("exit", got)]), specModel := true, specImpl := fails.isEmpty,
           nontrivial := true,
           notes := fails.eraseDups.map ("implfail:new:" ++ ·) ++ ["d:cmd-" ++ kind, "d:exit-" ++ got] ++ (if (jstrD input "break").isEmpty then [] else ["d:" ++ jstrD input "break"]) }

end Gleece.Driver
