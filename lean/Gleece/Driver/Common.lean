/-
  Driver plumbing: JSON helpers shared by all modes.  Core Lean only (no Mathlib) so that the
  driver links as a `lean_exe`.
-/
import Lean.Data.Json
open Lean

namespace Gleece.Driver

/-- what a mode handler returns for one case -/
structure Verdict where
  model      : Json            -- the model's canonical answer (diffed against the implementation's by the orchestrator)
  specModel  : Bool            -- decidable spec on the model's answer
  specImpl   : Bool            -- decidable spec on the implementation's answer (false if it crashed / is malformed)
  nontrivial : Bool            -- non-trivial by the property's stated rule
  notes      : List String := []   -- which clause failed, which branches were hit (input distribution)
  implView   : Option Json := none -- when set: the projection of the implementation's answer that is compared
                                   -- with `model` (instead of the whole answer)

def Verdict.toJson (id : Nat) (v : Verdict) : Json :=
  let base : List (String × Json) := [("id", (id : Json)), ("model", v.model), ("specModel", (v.specModel : Json)),
              ("specImpl", (v.specImpl : Json)), ("nontrivial", (v.nontrivial : Json)),
              ("notes", Json.arr (v.notes.map Json.str).toArray)]
  Json.mkObj (base ++ (match v.implView with | some j => [("implView", j)] | none => []))

abbrev Handler := (prop : String) → (input : Json) → (implOut : Option Json) → Except String Verdict

def jstr (j : Json) (k : String) : Except String String := do (← j.getObjVal? k).getStr?
def jnat (j : Json) (k : String) : Except String Nat := do (← j.getObjVal? k).getNat?
def jarr (j : Json) (k : String) : Except String (Array Json) := do (← j.getObjVal? k).getArr?
def jbool (j : Json) (k : String) : Except String Bool := do (← j.getObjVal? k).getBool?
def jstrD (j : Json) (k : String) (d : String := "") : String := (jstr j k).toOption.getD d
def jboolD (j : Json) (k : String) (d : Bool := false) : Bool := (jbool j k).toOption.getD d
def jarrD (j : Json) (k : String) : Array Json := (jarr j k).toOption.getD #[]

end Gleece.Driver
