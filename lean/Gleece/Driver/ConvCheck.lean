import Gleece.Driver.IR
import Gleece.Model.Conv
open Lean
namespace Gleece.Driver

/-! tie of `Gleece.Conv` (both validator-tag converters, every keyword they write) to the two real documents.
    The parsers the model is parametrised by are instantiated with decimal-literal parsers; a tag with a value
    outside the part of `strconv.ParseFloat` / YAML scalar resolution they cover is skipped (counted). -/

/-- strip trailing zeros of the fraction -/
def normNum : Nat → JsonNumber → JsonNumber
  | 0, n => n
  | fuel + 1, n => if n.exponent > 0 && n.mantissa % 10 == 0 then normNum fuel ⟨n.mantissa / 10, n.exponent - 1⟩ else n

def normJsonNum (n : JsonNumber) : JsonNumber := normNum (n.exponent + 1) n

/-- `[+-]?digits(.digits)?`, at most 15 significant digits: the part of `strconv.ParseFloat` the oracle covers -/
def parseDecimal (s : String) : Option JsonNumber :=
  let cs := s.toList
  let neg := cs.head? = some '-'
  let body := if cs.head? = some '-' || cs.head? = some '+' then cs.drop 1 else cs
  let ip := body.takeWhile (· ≠ '.')
  let rest := body.dropWhile (· ≠ '.')
  let fp := rest.drop 1
  if ip.isEmpty || !(ip.all Char.isDigit) || !(fp.all Char.isDigit) || (!rest.isEmpty && fp.isEmpty) || ip.length + fp.length > 15 then none
  else
    let m : Nat := (ip ++ fp).foldl (fun acc c => 10 * acc + (c.toNat - 48)) 0
    some (normJsonNum ⟨if neg then -(m : Int) else m, fp.length⟩)

def yamlSpecials : List String :=
  ["null", "Null", "NULL", "~", "", "True", "TRUE", "False", "FALSE", "y", "Y", "yes", "Yes", "YES", "n", "N", "no", "No", "NO",
   "on", "On", "ON", "off", "Off", "OFF"]

open Gleece.Conv in
def drvParsers : Parsers JsonNumber :=
  { num := parseDecimal, uint := decUint, int := decInt, bool := decBool,
    yaml := fun s => match decInt s with
      | some i => .int i
      | none => match parseDecimal s with
        | some x => .num x
        | none => if s = "true" then .bool true else if s = "false" then .bool false else .str s }

/-- text no number grammar (Go's or YAML's) accepts -/
def plainText (s : String) : Bool :=
  let l := s.toLower
  !s.isEmpty && s.toList.all (fun c => c.isAlpha || c = '=' || c = '^' || c = '$' || c = '[' || c = ']' || c = '-') &&
  s.toList.head?.any Char.isAlpha &&
  !(l.startsWith "inf") && !(l.startsWith "nan") && !(l.startsWith "0x") && !(yamlSpecials.contains s)

def numDomain (v : String) : Bool := (parseDecimal v).isSome || plainText v || v.isEmpty || v = "--1" || v = "-" || v = "+"
def yamlDomain (v : String) : Bool :=
  (Gleece.Conv.decInt v).isSome && !(v.startsWith "+") && !(v.length > 1 && v.startsWith "0") && !(v.startsWith "-0") ||
  ((parseDecimal v).isSome && v.toList.any (· = '.') && !(v.startsWith "+")) || v = "true" || v = "false" || plainText v

open Gleece.Conv in
def tyOfName (t : String) : Ty :=
  match Gleece.IR.toOpenApiType t with
  | "string" => .string | "integer" => .integer | "number" => .number | "boolean" => .boolean | "array" => .array | _ => .other

open Gleece.Conv in
/-- every value of the tag lies where the oracle agrees with Go's parsers -/
def tagInDomain (t : Ty) (rs : List (Kind × String)) : Bool :=
  rs.all fun (k, v) =>
    (!(lowerRule t k || upperRule t k) || numDomain v) &&
    (match k with
     | .oneof => (fields v).all fun m => (t != .number || numDomain m) && (t == .string || t == .integer || t == .number || yamlDomain m)
     | .enum => (splitBar v).all fun m => (t != .number || numDomain m) && (t == .string || yamlDomain m)
     | _ => true)

open Gleece.Conv in
def memberJson (m : Member JsonNumber) : Json :=
  match memberView drvParsers m with
  | .str s => Json.str s
  | .int i => Json.num (JsonNumber.fromInt i)
  | .num x => Json.num x
  | .bool b => Json.bool b
  | .plain s => Json.str s

def normNumsJ : Json → Json
  | .num n => .num (normJsonNum n)
  | j => j

def sortEnumL (l : List Json) : Json :=
  Json.arr ((l.toArray.map fun x => (x.compress, normNumsJ x)).qsort (fun a b => a.1 < b.1) |>.map (·.2))

def optNum (k : String) (o : Option JsonNumber) : List (String × Json) := match o with | some x => [(k, Json.num x)] | none => []
def optNat (k : String) (o : Option Nat) : List (String × Json) := match o with | some x => [(k, Json.num (JsonNumber.fromNat x))] | none => []

open Gleece.Conv in
/-- kin-openapi's rendering of the members the 3.0 converter writes (`omitempty` on the non-pointer ones) -/
def render30 (s : S30 JsonNumber) : Json :=
  Json.mkObj <|
    (if s.format.isEmpty then [] else [("format", Json.str s.format)]) ++
    optNum "minimum" s.min ++ (if s.exclMin then [("exclusiveMinimum", Json.bool true)] else []) ++
    optNum "maximum" s.max ++ (if s.exclMax then [("exclusiveMaximum", Json.bool true)] else []) ++
    (if s.minLength = 0 then [] else [("minLength", Json.num (JsonNumber.fromNat s.minLength))]) ++ optNat "maxLength" s.maxLength ++
    (if s.pattern.isEmpty then [] else [("pattern", Json.str s.pattern)]) ++
    (if s.minItems = 0 then [] else [("minItems", Json.num (JsonNumber.fromNat s.minItems))]) ++ optNat "maxItems" s.maxItems ++
    (if s.uniqueItems then [("uniqueItems", Json.bool true)] else []) ++
    (if s.enum.isEmpty then [] else [("enum", sortEnumL (s.enum.map memberJson))])

open Gleece.Conv in
/-- libopenapi's rendering of the members the 3.1 converter writes -/
def render31 (s : S31 JsonNumber) : Json :=
  Json.mkObj <|
    (if s.format.isEmpty then [] else [("format", Json.str s.format)]) ++
    optNum "minimum" s.minimum ++ optNum "exclusiveMinimum" s.exclMin ++
    optNum "maximum" s.maximum ++ optNum "exclusiveMaximum" s.exclMax ++
    optNat "minLength" (dropZero s.minLength) ++ optNat "maxLength" (dropZero s.maxLength) ++
    (if s.pattern.isEmpty then [] else [("pattern", Json.str s.pattern)]) ++
    optNat "minItems" (dropZero s.minItems) ++ optNat "maxItems" (dropZero s.maxItems) ++
    (match s.uniqueItems with | some true => [("uniqueItems", Json.bool true)] | _ => []) ++
    (if s.enum.isEmpty then [] else [("enum", sortEnumL (s.enum.map memberJson))])

def convKeys : List String :=
  ["format", "minimum", "exclusiveMinimum", "maximum", "exclusiveMaximum", "minLength", "maxLength", "pattern", "minItems", "maxItems", "uniqueItems", "enum"]

partial def normNums : Json → Json
  | .num n => .num (normJsonNum n)
  | .arr xs => .arr (xs.map normNums)
  | .obj kvs => Json.mkObj (kvs.toList.map fun (k, v) => (k, normNums v))
  | j => j

/-- `enum` is a set: member order is not compared (the harness canonicalises component members) -/
def sortEnum (j : Json) : Json :=
  match j with
  | .arr xs => Json.arr ((xs.map fun x => (x.compress, x)).qsort (fun a b => a.1 < b.1) |>.map (·.2))
  | o => o

/-- the converter-written members of a real schema -/
def realKeywords (schema : Json) : Json :=
  Json.mkObj (convKeys.filterMap fun k => (schema.getObjVal? k).toOption.map fun v => (k, if k = "enum" then sortEnum (normNums v) else normNums v))

def jsonAtKeys (j : Json) : List String → Option Json
  | [] => some j
  | k :: rest => (j.getObjVal? k).toOption.bind (jsonAtKeys · rest)

structure ConvTie where
  fails : List String := []
  compared : Nat := 0
  skipped : Nat := 0
  agreeable : Nat := 0
  /-- (operationId, parameter name, location) of parameters whose tag carries a value only one converter reads
      (or one outside the oracle): outside C11's quantifier "validator tags the converters understand" -/
  excused : List (String × String × String) := []
  /-- the MODEL predicts an `enum` member that is not a value of the schema's type at some site (finding C08-F3):
      per version -/
  mistyped30 : Bool := false
  mistyped31 : Bool := false

open Gleece.Conv in
/-- is the tag one both converters read the same way (`Agreeable`, decided on the oracle)? -/
def countsOKB (t : Ty) (rs : List (Kind × String)) : Bool :=
  countP (fun r => lowerRule t r.1) rs ≤ 1 && countP (fun r => upperRule t r.1) rs ≤ 1

open Gleece.Conv in
def valuesOKB (t : Ty) (rs : List (Kind × String)) : Bool :=
  rs.all fun (k, v) =>
    (!(lowerRule t k || upperRule t k) || (drvParsers.num v).isSome) &&
    (!(lengthRule t k) || (match drvParsers.uint v, drvParsers.int v with | some n, some i => (n : Int) == i | _, _ => false)) &&
    (!(t == .array && k == .uniqueItems) || (drvParsers.bool v).isSome) &&
    (plainMembers t k v).all fun m => members30 drvParsers t [m] == [drvParsers.yaml m]

open Gleece.Conv in
/-- no upper count of zero (the 3.1 renderer drops it: finding C11-F8) -/
def zeroOKB (t : Ty) (rs : List (Kind × String)) : Bool :=
  rs.all fun (k, v) => !(upperCountRule t k) || drvParsers.uint v != some 0

def tagVal (tag key : String) : String :=
  match tag.splitOn (key ++ ":\"") with
  | _ :: rest :: _ => (rest.splitOn "\"").headD ""
  | _ => ""

open Gleece.Conv in
/-- one schema site: the converter-written members of the real 3.0 / 3.1 schema against `conv30` / `conv31`, and —
    for an agreeable tag — the instantiated `converters_agree` -/
def convSite (out : ConvTie) (label tn validator : String) (key : String × String × String) (s30 s31 : Option Json) : ConvTie := Id.run do
  let mut out := out
  -- a named type is a `$ref` (nothing is written next to it); a slice of anything is an inline array schema
  if !(isPrimName (stripArr tn)) && !(tn.startsWith "[]") then return out
  -- `[]byte` / `time.Time`: the TYPE already gives the schema a format; not the converters' doing
  if ["binary", "date-time", "map"].contains (Gleece.IR.toOpenApiType tn) then return out
  let t := tyOfName tn
  let rs := parseRules validator
  if !(tagInDomain t rs) then
    return { out with skipped := out.skipped + 1, excused := key :: out.excused, mistyped30 := true, mistyped31 := true }
  if ((rs.foldl (apply30 drvParsers t) {}).enum.any fun m => !(memberOfType t m)) then out := { out with mistyped30 := true }
  if ((rs.foldl (apply31 drvParsers t) {}).enum.any fun m => !(memberOfType t (memberView drvParsers m))) then out := { out with mistyped31 := true }
  match s30, s31 with
  | some s30, some s31 =>
    if (s30.getObjVal? "$ref").toOption.isSome then return out
    out := { out with compared := out.compared + 1 }
    let m30 := rs.foldl (apply30 drvParsers t) {}
    let m31 := rs.foldl (apply31 drvParsers t) {}
    let e30 := render30 m30
    let e31 := render31 m31
    let r30 := realKeywords s30
    let r31 := realKeywords s31
    if e30.compress ≠ r30.compress then
      out := { out with fails := out.fails ++ [s!"conv30-model:{label}:[{validator}]:model={e30.compress}:real={r30.compress}"] }
    if e31.compress ≠ r31.compress then
      out := { out with fails := out.fails ++ [s!"conv31-model:{label}:[{validator}]:model={e31.compress}:real={r31.compress}"] }
    if !(valuesOKB t rs) then
      out := { out with excused := key :: out.excused }
    else if countsOKB t rs && zeroOKB t rs then
      out := { out with agreeable := out.agreeable + 1 }
      -- `converters_agree` instantiated: the two schemas under the view
      if view30 m30 ≠ view31 drvParsers m31 then
        out := { out with fails := out.fails ++ [s!"agreeable-tag-views-differ:{label}:[{validator}]"] }
    return out
  | _, _ => return out

/-- builtin-typed path/query/header parameters and builtin-typed struct fields -/
def convTie (d : IRDoc) (doc30 doc31 : Json) : ConvTie := Id.run do
  let mut out : ConvTie := {}
  let ops30 := docOperations doc30
  let ops31 := docOperations doc31
  for c in d.controllers do
    for r in c.routes do
      if r.hidden then continue
      for p in r.params do
        if p.isContext then continue
        let opOf (ops : List (String × String × Json)) : Option Json :=
          (ops.find? fun (_, _, op) => jstrD op "operationId" = r.opId).map fun (_, _, op) => op
        if p.passedIn = "Form" then
          let find (ops : List (String × String × Json)) : Option Json := (opOf ops).bind fun op =>
            jsonAtKeys op ["requestBody", "content", "application/x-www-form-urlencoded", "schema", "properties", p.nameInSchema]
          out := convSite out s!"{r.opId}:form:{p.name}" p.type.name p.validator ("form", r.opId, p.nameInSchema) (find ops30) (find ops31)
          continue
        if p.passedIn = "Body" then
          let find (ops : List (String × String × Json)) : Option Json := (opOf ops).bind fun op =>
            jsonAtKeys op ["requestBody", "content", "application/json", "schema"]
          out := convSite out s!"{r.opId}:body:{p.name}" p.type.name p.validator ("body", r.opId, "") (find ops30) (find ops31)
          continue
        let find (ops : List (String × String × Json)) : Option Json :=
          (ops.find? fun (_, _, op) => jstrD op "operationId" = r.opId).bind fun (_, _, op) =>
            ((jarrD op "parameters").toList.find? fun q => jstrD q "name" = p.nameInSchema && jstrD q "in" = Gleece.IR.lowerLoc p.passedIn).bind fun q =>
              (q.getObjVal? "schema").toOption
        out := convSite out s!"{r.opId}:{p.name}" p.type.name p.validator (r.opId, p.nameInSchema, Gleece.IR.lowerLoc p.passedIn) (find ops30) (find ops31)
  for st in d.structs do
    let sname := jstrD st "name"
    for f in (jarrD st "fields").toList do
      if jboolD f "isEmbedded" then continue
      let tag := jstrD f "tag"
      let jn := ((tagVal tag "json").splitOn ",").headD ""
      let prop := if jn.isEmpty || jn = "-" then jstrD f "name" else jn
      let find (doc : Json) : Option Json :=
        match jsonAtKeys doc ["components", "schemas", sname, "properties", prop] with
        | some x => some x
        | none => (jsonAtKeys doc ["components", "schemas", sname]).bind fun comp =>
            (jarrD comp "allOf").toList.findSome? fun part => jsonAtKeys part ["properties", prop]
      out := convSite out s!"{sname}.{prop}" (jstrD f "type") (tagVal tag "validate") ("component", sname, prop) (find doc30) (find doc31)
  return out

end Gleece.Driver
