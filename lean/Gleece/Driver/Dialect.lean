import Gleece.Driver.IR
import Gleece.Model.Bounds
import Gleece.Driver.ConvCheck
open Lean
namespace Gleece.Driver

/-! C11: translate both documents into a common dialect-free form and diff them.
    No model in the loop: implementation (3.0 emitter) vs implementation (3.1 emitter). -/

def isBlank (s : String) : Bool := s.toList.all (· = ' ')

/-- dialect translation + canonicalisation of insignificant spellings.
    `v30 = true`: OpenAPI 3.0 (`exclusiveMinimum: true` + `minimum: n`  ↦  `exclusiveMinimum: n`). -/
partial def normDoc (v30 : Bool) : Json → Json
  | .obj kvs =>
    let entries := kvs.toList.filter (fun (k, _) => k ≠ "openapi") |>.map fun (k, v) => (k, normDoc v30 v)
    let get (k : String) := (entries.find? (·.1 = k)).map (·.2)
    let entries := if v30 then
        [("minimum", "exclusiveMinimum"), ("maximum", "exclusiveMaximum")].foldl (fun es (lo, ex) =>
          match (es.find? (·.1 = ex)).map (·.2), (es.find? (·.1 = lo)).map (·.2) with
          | some (Json.bool true), some n => (es.filter fun (k, _) => k ≠ ex && k ≠ lo) ++ [(ex, n)]
          | some (Json.bool false), _ => es.filter fun (k, _) => k ≠ ex
          | _, _ => es) entries
      else entries
    let _ := get
    let entries := entries.filter fun (k, v) =>
      !((k = "required" && (v == Json.arr #[] || v == Json.bool false)) ||
        (k = "parameters" && v == Json.arr #[]) ||
        (k = "security" && v == Json.arr #[]) ||
        (k = "deprecated" && v == Json.bool false) ||
        (k = "description" && (match v with | .str s => isBlank s | _ => false)))
    Json.mkObj entries
  | .arr xs => Json.arr (xs.map (normDoc v30))
  | j => j

structure Diff where
  path : List String
  kind : String       -- only30 | only31 | val | len | type
  a : Json
  b : Json

partial def diffJson (path : List String) (a b : Json) : List Diff :=
  match a, b with
  | .obj ka, .obj kb =>
    let la := ka.toList; let lb := kb.toList
    let keys := (la.map (·.1) ++ lb.map (·.1)).eraseDups
    keys.flatMap fun k =>
      match (la.find? (·.1 = k)).map (·.2), (lb.find? (·.1 = k)).map (·.2) with
      | some x, some y => diffJson (path ++ [k]) x y
      | some x, none => [⟨path ++ [k], "only30", x, Json.null⟩]
      | none, some y => [⟨path ++ [k], "only31", Json.null, y⟩]
      | none, none => []
  | .arr xa, .arr xb =>
    if xa.size ≠ xb.size then [⟨path, "len", a, b⟩]
    else (List.range xa.size).flatMap fun i => diffJson (path ++ [s!"[{i}]"]) xa[i]! xb[i]!
  | x, y => if x == y then [] else [⟨path, "val", x, y⟩]

partial def jsonAt (j : Json) : List String → Json
  | [] => j
  | k :: rest =>
    if k.startsWith "[" then
      let i := ((k.drop 1).dropEnd 1).toString.toNat!
      jsonAt ((j.getArr?.toOption.getD #[])[i]?.getD Json.null) rest
    else jsonAt ((j.getObjVal? k).toOption.getD Json.null) rest

/-- classify one difference: known-finding id or "" -/
def classifyDiff (n30 n31 : Json) (excused : List (String × String × String)) (d : Diff) : String :=
  let last := d.path.getLast?.getD ""
  -- a difference inside the schema of a parameter whose tag holds a value only one converter reads
  let malformedParam : Bool :=
    match d.path with
    | "paths" :: p :: verb :: "parameters" :: idx :: "schema" :: _ =>
      let op := jsonAt n31 ["paths", p, verb]
      let q := jsonAt n31 ["paths", p, verb, "parameters", idx]
      excused.contains (jstrD op "operationId", jstrD q "name", jstrD q "in")
    | "components" :: "schemas" :: m :: "properties" :: prop :: _ => excused.contains ("component", m, prop)
    | "components" :: "schemas" :: m :: "allOf" :: _ :: "properties" :: prop :: _ => excused.contains ("component", m, prop)
    | "paths" :: p :: verb :: "requestBody" :: "content" :: "application/x-www-form-urlencoded" :: "schema" :: "properties" :: prop :: _ =>
      excused.contains ("form", jstrD (jsonAt n31 ["paths", p, verb]) "operationId", prop)
    | "paths" :: p :: verb :: "requestBody" :: "content" :: "application/json" :: "schema" :: _ =>
      excused.contains ("body", jstrD (jsonAt n31 ["paths", p, verb]) "operationId", "")
    | _ => false
  if malformedParam then "excused" else
  let parent31 := jsonAt n31 d.path.dropLast
  let inComponents := d.path.take 2 = ["components", "schemas"]
  -- C11-F1: 3.0 adds a `default` response to every operation, 3.1 never does
  if last = "default" && d.kind = "only30" && (d.path.dropLast.getLast?.getD "") = "responses" then "C11-F1"
  -- C11-F9 (= C07-F7): 3.1 renders a member of a STRING enum component that reads as another YAML scalar ("", null, true, 0)
  -- as that scalar; the two member lists then differ (and sort differently)
  else if inComponents && d.path.length ≥ 4 && d.path.any (· = "enum") &&
       (let comp31 := jsonAt n31 (d.path.take 3)
        jstrD comp31 "type" = "string" && (jarrD comp31 "enum").any fun m => match m with | .str _ => false | _ => true) then "C11-F9"
  -- C11-F2 (= C08-F1): 3.0 renders non-string enum members of a COMPONENT as strings
  else if inComponents && d.path.any (· = "enum") && d.kind = "val" &&
       (match d.a, d.b with | .str _, .num _ => true | .str _, .bool _ => true | _, _ => false) then "C11-F2"
  -- C11-F3: two bounds of one family (e.g. `lt=10,lte=9`): 3.0 keeps the last, 3.1 keeps both
  else if ["minimum", "maximum", "exclusiveMinimum", "exclusiveMaximum"].contains last &&
       ((parent31.getObjVal? "minimum").toOption.isSome && (parent31.getObjVal? "exclusiveMinimum").toOption.isSome ||
        (parent31.getObjVal? "maximum").toOption.isSome && (parent31.getObjVal? "exclusiveMaximum").toOption.isSome) then "C11-F3"
  -- C11-F5: `enum=` APPENDS to an existing member list in 3.0 and REPLACES it in 3.1 (e.g. `oneof=a b,enum=a|b`)
  else if last = "enum" && d.kind = "len" && (match d.a, d.b with | .arr x, .arr y => x.size > y.size | _, _ => false) then "C11-F5"
  -- C11-F8: an upper count of zero (`max=0`, `len=0`, `maxItems=0`) is dropped by the 3.1 renderer
  else if (last = "maxLength" || last = "maxItems") && d.kind = "only30" && d.a == Json.num 0 then "C11-F8"
  -- C07-F1: a usage site (parameter description / validator) rewrote the SHARED 3.0 component
  else if inComponents && d.path.length = 4 && (last = "description" || last = "enum" || last = "format") then "C07-F1"
  else
    let _ := n30
    ""

/-! tie of `Gleece.Bounds` (the numeric-bound converters) to the real documents -/
open Gleece.Bounds in
def parseBoundRules (validator : String) : List (Rule × Int) :=
  (validator.splitOn ",").filterMap fun r =>
    match r.splitOn "=" with
    | [n, v] =>
      (match n with
       | "gt" => some Rule.gt | "gte" => some Rule.gte | "lt" => some Rule.lt | "lte" => some Rule.lte
       | "min" => some Rule.min | "max" => some Rule.max | _ => none).bind fun k => v.toInt?.map fun i => (k, i)
    | _ => none

def jint? (j : Json) (k : String) : Option Int := (j.getObjVal? k).toOption.bind fun v => v.getInt?.toOption

open Gleece.Bounds in
def schemaB30 (s : Json) : B30 :=
  { min := jint? s "minimum", exclMin := jboolD s "exclusiveMinimum", max := jint? s "maximum", exclMax := jboolD s "exclusiveMaximum" }

open Gleece.Bounds in
def schemaB31 (s : Json) : B31 :=
  { min := jint? s "minimum", exclMin := jint? s "exclusiveMinimum", max := jint? s "maximum", exclMax := jint? s "exclusiveMaximum" }

/-- integer-typed, non-array path/query/header parameters: their schema bounds in both real documents
    against `apply30` / `apply31` -/
def boundTieFails (d : IRDoc) (doc30 doc31 : Json) : List String := Id.run do
  let mut bad : List String := []
  let ops30 := docOperations doc30
  let ops31 := docOperations doc31
  for c in d.controllers do
    for r in c.routes do
      if r.hidden then continue
      for p in r.params do
        if p.isContext || p.passedIn = "Body" || p.passedIn = "Form" then continue
        if Gleece.IR.toOpenApiType p.type.name ≠ "integer" then continue
        let rules := parseBoundRules p.validator
        let find (ops : List (String × String × Json)) : Option Json :=
          (ops.find? fun (_, _, op) => jstrD op "operationId" = r.opId).bind fun (_, _, op) =>
            ((jarrD op "parameters").toList.find? fun q => jstrD q "name" = p.nameInSchema && jstrD q "in" = Gleece.IR.lowerLoc p.passedIn).bind fun q =>
              (q.getObjVal? "schema").toOption
        match find ops30, find ops31 with
        | some s30, some s31 =>
          if schemaB30 s30 ≠ rules.foldl Gleece.Bounds.apply30 {} then bad := bad ++ [s!"bounds30-model:{r.opId}:{p.name}"]
          if schemaB31 s31 ≠ rules.foldl Gleece.Bounds.apply31 {} then bad := bad ++ [s!"bounds31-model:{r.opId}:{p.name}"]
        | _, _ => pure ()
  return bad

def pathStr (p : List String) : String := "/".intercalate p

def checkC11 (d : IRDoc) (impl : Json) : PropOut := Id.run do
  let s30 := specView impl "spec30"
  let s31 := specView impl "spec31"
  match s30.err, s31.err with
  | none, none =>
    let n30 := normDoc true s30.doc
    let n31 := normDoc false s31.doc
    let ds := diffJson [] n30 n31
    let ct := convTie d s30.doc s31.doc
    let allFails := ds.map fun df =>
      let fid := classifyDiff n30 n31 ct.excused df
      (if fid.isEmpty then "" else fid ++ ":") ++ s!"{df.kind}:{pathStr df.path}"
    let nExcused := (allFails.filter fun f => f.startsWith "excused:").length
    let fails := allFails.filter fun f => !f.startsWith "excused:"
    -- collapse the (many) occurrences of a known finding to one entry per finding per case
    let known := (fails.filter fun f => f.startsWith "C").map (fun f => (f.splitOn ":")[0]!) |>.eraseDups
    let unknown := fails.filter fun f => !f.startsWith "C"
    let ops := docOperations s30.doc
    let tie := ct.fails.take 4
    -- differences the converter theorems EXCUSE (a rule list outside `Agreeable`: an unparsable value, …) are no
    -- failures; when nothing else differs the two views count as agreeing (a document without operations has no
    -- `default` response to differ on, so such a case has no recorded finding to ride on)
    return { model := n31, implView := (if fails.isEmpty then n31 else n30), implFails := known.map (· ++ ":dialect-difference") ++ unknown.take 6,
             modelFails := tie, nontrivial := !ops.isEmpty,
             notes := [s!"d:diffs={ds.length}", s!"d:conv-compared={ct.compared}", s!"d:conv-agreeable={ct.agreeable}",
                       s!"d:conv-out-of-oracle={ct.skipped}", s!"d:excused-diffs={nExcused}"] }
  | some e30, none =>
    return { model := Json.str "ok", implView := Json.str "error", implFails := [s!"3.0-fails-3.1-succeeds:{e30.take 60}"], nontrivial := true }
  | none, some e31 =>
    -- libopenapi refuses some recursive documents the 3.0 emitter accepts
    let fid := if (e31.splitOn "circular").length > 1 then "C11-F4:" else ""
    return { model := Json.str "error", implView := Json.str "ok", implFails := [fid ++ s!"3.1-fails-3.0-succeeds:{e31.take 60}"], nontrivial := true,
             notes := ["d:only-3.1-fails"] }
  | some _, some _ =>
    let _ := d
    return { model := Json.str "error", implView := Json.str "error", nontrivial := false, notes := ["d:both-fail"] }

end Gleece.Driver
