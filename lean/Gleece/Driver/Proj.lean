import Gleece.Driver.IRHandler
import Gleece.Model.Validate
import Gleece.Model.Paths
open Lean
namespace Gleece.Driver
open Gleece.Validate Gleece.IR

/-! parsing the abstract project -/

def propKindOf : Json → PropKind × String
  | .str s => (.str, s)
  | .num _ => (.num, "")
  | .bool _ => (.bool, "")
  | .arr xs =>
    -- string elements joined by U+0001; an array with a non-string element is marked by a leading U+0002
    if xs.toList.all (fun x => x.getStr?.toOption.isSome) then (.arr, String.intercalate (String.singleton (Char.ofNat 1)) (xs.toList.filterMap fun x => x.getStr?.toOption))
    else (.arr, String.singleton (Char.ofNat 2))
  | .obj _ => (.obj, "")
  | .null => (.null, "")

def parseAnnot (j : Json) : Annot :=
  { name := jstrD j "name", value := jstrD j "value", desc := jstrD j "desc",
    props := (objEntries ((j.getObjVal? "props").toOption.getD Json.null)).map fun (k, v) => let (kd, s) := propKindOf v; (k, kd, s) }

structure PMethod where
  m : Method
  file : String
  free : List String
  raw : Json

structure PController where
  name : String
  pkg : String
  file : String
  annots : List Annot
  free : List String
  methods : List PMethod
  noEmbed : Bool

structure PProject where
  controllers : List PController
  env : TypeEnv
  enforce : Bool
  defaultSecurity : Option SecComp
  schemes : List String
  engine : String
  openapi : String
  types : List Json
  cfgJson : Json

def parseProject (j : Json) : PProject :=
  let cfg := (j.getObjVal? "config").toOption.getD Json.null
  let types := (jarrD j "types").toList
  let q (t : Json) := if jstrD t "pkg" = "ctl" then jstrD t "name" else jstrD t "pkg" ++ "." ++ jstrD t "name"
  let primAlias (t : Json) := universePrims.contains (jstrD t "base")
  { controllers := ((jarrD j "controllers").toList.filter fun c => !jboolD c "unglobbed").map fun c =>
      { name := jstrD c "name", pkg := jstrD c "pkg", file := jstrD c "file", noEmbed := jboolD c "noEmbed",
        annots := (jarrD c "annots").toList.map parseAnnot, free := strList c "free",
        methods := (jarrD c "methods").toList.map fun m =>
          { m := { name := jstrD m "name", annots := (jarrD m "annots").toList.map parseAnnot,
                   params := (jarrD m "params").toList.map fun p => ⟨jstrD p "name", jstrD p "type"⟩,
                   results := strList m "results" },
            file := jstrD m "file", free := strList m "free", raw := m } },
    env := { enums := (types.filter (jstrD · "kind" = "enum")).map q, structs := (types.filter (jstrD · "kind" = "struct")).map q,
             aliases := (types.filter fun t => jstrD t "kind" = "alias" && primAlias t).map q,
             errorTypes := (types.filter fun t => jstrD t "kind" = "struct" && (jarrD t "fields").any fun f =>
               (jboolD f "embedded" || jstrD f "name" = "") && jstrD f "type" = "error").map q },
    enforce := jboolD cfg "enforce",
    defaultSecurity := match (cfg.getObjVal? "defaultSecurity").toOption with
      | some Json.null => none | some d => some (parseSecComp d) | none => none,
    schemes := (jarrD cfg "schemes").toList.map (jstrD · "name"),
    engine := jstrD cfg "engine", openapi := jstrD cfg "openapi", types, cfgJson := cfg }

/-! the model's diagnostics for a whole project -/

structure EDiag where
  controller : String
  entity : String       -- "" = the controller itself
  code : String
  severity : Nat
deriving DecidableEq

def ediagJson (d : EDiag) : Json := Json.arr #[(d.controller : Json), (d.entity : Json), (d.code : Json), (d.severity : Json)]

/-- the link validator's findings before its final de-duplication: (code, what it points at).  Two findings
    are `Equal` in the implementation when code, message and range coincide, i.e. when they are about the
    same annotation (by position) or the same url parameter / function parameter (by name). -/
def linkFindings (ctrlRoute : String) (m : Method) : List (String × String) :=
  let route := ((m.annots.filter (·.name = "Route")).head?.map (·.value)).getD ""
  -- the controller's prefix first (`WithControllerRoute`, fix for the prefix half of C10-F2)
  let urlParams := extractUrlParams (ctrlRoute ++ route)
  let pathAttrs := (m.annots.filter (·.name = "Path")).zipIdx
  let funcParams := (m.params.filter fun p => !isContextType p.type).map (·.name)
  -- 1. route
  let badAlias := pathAttrs.filter fun (a, _) => aliasOf a = .bad
  let d1 : List (String × String) :=
    if !badAlias.isEmpty then badAlias.map fun (_, i) => ("annotation-properties-invalid-value-for-key", s!"path#{i}")
    else
      let referenced := pathAttrs.map fun (a, _) => match aliasOf a with | .ok v => v | _ => a.value
      let rec goUrl (ps : List String) (seen : List String) : List (String × String) :=
        match ps with
        | [] => []
        | p :: rest =>
          (if seen.contains p then [("linker-duplicate-url-parameter", "url:" ++ p)] else []) ++
          (if referenced.contains p then [] else [("linker-route-missing-path-reference", "url:" ++ p)]) ++
          goUrl rest (if seen.contains p then seen else seen ++ [p])
      goUrl urlParams []
  -- 2. @Path annotations
  let rec goPath (as : List (Annot × Nat)) (seenParams seenVals seenAliases : List String) : List (String × String) × List String :=
    match as with
    | [] => ([], seenParams)
    | (a, i) :: rest =>
      let known := funcParams.contains a.value
      let dA := if !known then [("linker-path-annotation-invalid-reference", s!"path#{i}:value")]
                else if seenParams.contains a.value then [("linker-multiple-parameter-refs", s!"path#{i}")] else []
      let seenParams' := if known && !seenParams.contains a.value then seenParams ++ [a.value] else seenParams
      let dB := if seenVals.contains a.value then [("linker-duplicate-path-param", s!"path#{i}")] else []
      let seenVals' := if seenVals.contains a.value then seenVals else seenVals ++ [a.value]
      let unaliased : List (String × String) × List String :=
        ((if seenAliases.contains a.value && !seenVals.contains a.value then [("linker-duplicate-path-alias-ref", s!"path#{i}")] else []),
         if seenAliases.contains a.value then seenAliases else seenAliases ++ [a.value])
      let (dC, seenAliases') :=
        match aliasOf a with
        | .bad => ([("annotation-properties-invalid-value-for-key", s!"path#{i}")], seenAliases)
        | .ok al =>
          if al.isEmpty then unaliased else
          ((if seenAliases.contains al then [("linker-duplicate-path-alias-ref", s!"path#{i}")] else []) ++
           (if urlParams.contains al then [] else [("linker-path-annotation-invalid-reference", s!"path#{i}:alias")]),
           if seenAliases.contains al then seenAliases else seenAliases ++ [al])
        | .none => unaliased
      let (r, sp) := goPath rest seenParams' seenVals' seenAliases'
      (dA ++ dB ++ dC ++ r, sp)
  let (d2, seen2) := goPath pathAttrs [] [] []
  -- 3. other binding annotations with a non-blank value
  let others := (m.annots.filter fun a => isBindingAnnot a.name && !(a.value.toList.all (· = ' '))).zipIdx
  let d3 := (others.filter fun (a, _) => !funcParams.contains a.value).map fun (_, i) => ("linker-path-annotation-invalid-reference", s!"other#{i}")
  let seen3 := seen2 ++ (others.filter fun (a, _) => funcParams.contains a.value).map (·.1.value)
  -- 4. every non-context parameter is referenced
  let d4 := (m.params.filter fun p => !seen3.contains p.name && !isContextType p.type).map fun p => ("linker-unreferenced-parameter", "param:" ++ p.name)
  d1 ++ d2 ++ d3 ++ d4


/-- `AnnotationLinkValidator.Validate` ends by dropping findings that are `Equal` to an earlier one; the proved
    model (`Validate.linkValidate`) keeps them (its theorems are about emptiness, which de-duplication preserves) -/
def linkValidateDedup (ctrlRoute : String) (m : Method) : List Diag := (linkFindings ctrlRoute m).eraseDups.map fun (c, _) => err c

/-- the controller's own `@Route` value as the receiver validator reads it (`Annotations.GetFirst`) -/
def ctrlRouteOf (annots : List Annot) : String := ((annots.find? (·.name = "Route")).map (·.value)).getD ""

/-- is the method picked up as a route at all: it needs @Method and @Route (the visitor ignores others) -/
def isRoute (m : Method) : Bool :=
  -- `executionContext.IsApiEndpoint`: a @Method annotation and a NON-EMPTY first @Route value
  m.annots.any (·.name = "Method") && ((m.annots.find? (·.name = "Route")).map (!·.value.isEmpty)).getD false

/-- the declared struct types that EMBED `error` (a field merely typed `error` does not count) -/
def errorEmbedders (p : PProject) : List String :=
  (p.types.filter fun t => jstrD t "kind" = "struct" && (jarrD t "fields").any fun f =>
      (jboolD f "embedded" || jstrD f "name" = "") && jstrD f "type" = "error").map fun t =>
    if jstrD t "pkg" = "ctl" then jstrD t "name" else jstrD t "pkg" ++ "." ++ jstrD t "name"

/-- `none` = the validators return a hard error (not a diagnostic) -/
def modelDiags (p : PProject) : Option (List EDiag) :=
  p.controllers.foldl (fun acc c =>
    acc.bind fun ds =>
      if c.noEmbed then some ds else
      let self := (validateControllerSelf c.annots).map fun d => (⟨c.name, "", d.code, d.severity⟩ : EDiag)
      let ms := (c.methods.filter (isRoute ·.m)).foldl (fun acc2 pm =>
        acc2.bind fun ds2 =>
          (validateReceiver p.env (errorEmbedders p) p.enforce p.defaultSecurity.isSome c.annots pm.m).map fun r =>
            -- validateReceiver = … ++ linkValidate m: swap the raw link findings for the de-duplicated ones
            let r' := r.take (r.length - (linkValidate (ctrlRouteOf c.annots) pm.m).length) ++ linkValidateDedup (ctrlRouteOf c.annots) pm.m
            ds2 ++ r'.map fun d => (⟨c.name, pm.m.name, d.code, d.severity⟩ : EDiag)) (some [])
      ms.map fun m => ds ++ self ++ m) (some [])

/-- `ApiValidator.inPlaceAppendPathConflictDiagnostics`: every receiver named by a conflict gets a
    `route-conflict` warning; the entries are (verb, controller prefix ++ method route) of every receiver of every
    controller.  Compared per receiver, not per pair. -/
def conflictDiags (p : PProject) : List EDiag :=
  let recs : List (String × String × String × String) := p.controllers.flatMap fun c =>
    if c.noEmbed then [] else (c.methods.filter (isRoute ·.m)).map fun pm =>
      (c.name, pm.m.name, ((pm.m.annots.find? (·.name = "Method")).map (·.value)).getD "",
       -- the FULL template: the controller's prefix followed by the method's route (fix b4c8d4a; before it the prefix was left out)
       ((c.annots.find? (·.name = "Route")).map (·.value)).getD "" ++ ((pm.m.annots.find? (·.name = "Route")).map (·.value)).getD "")
  let entries := Gleece.Paths.mkEntries (recs.map fun (_, _, v, r) => (v, r))
  let cs := Gleece.Paths.findConflicts entries
  let flagged := (cs.flatMap fun c => [c.a.id, c.b.id]).eraseDups
  flagged.filterMap fun i => (recs[i]?).map fun (c, m, _, _) => ⟨c, m, "route-conflict", 2⟩

/-- one `route-conflict` per receiver (the implementation adds one per conflicting partner) -/
def dedupConflicts (l : List EDiag) : List EDiag :=
  l.foldl (fun acc d => if d.code = "route-conflict" && acc.contains d then acc else acc ++ [d]) []

def implDiags (impl : Json) : List EDiag :=
  (jarrD impl "diags").toList.map fun d => ⟨jstrD d "controller", jstrD d "entity", jstrD d "code", (jnat d "severity").toOption.getD 0⟩

def sortDiags (l : List EDiag) : List Json := sortJsonByText (l.map ediagJson)

/-! ### C10: the property's own definition of a well-linked route -/

def bindingNames : List String := ["Path", "Query", "Header", "FormField", "Body"]

/-- annotations and signature are mutually consistent (the property's wording, clause by clause) -/
def wellLinked (env : TypeEnv) (ctrlRoute : String) (m : Method) : List String :=
  -- the route is reduced, documented and served under its FIRST @Route (`GetFirstValueOrEmpty`)
  let route := ((m.annots.filter (·.name = "Route")).head?.map (·.value)).getD ""
  let urlParams := extractUrlParams (ctrlRoute ++ route)
  let paths := m.annots.filter (·.name = "Path")
  let pathNames := paths.map fun a => match aliasOf a with | .ok v => if v.isEmpty then a.value else v | _ => a.value
  let binds := m.annots.filter fun a => bindingNames.contains a.name
  let nonCtx := m.params.filter fun p => !isContextType p.type
  let verb := ((m.annots.find? (·.name = "Method")).map (·.value)).getD ""
  -- {names} of the full template <-> @Path bindings, one to one
  (if urlParams.eraseDups.length = urlParams.length && pathNames.eraseDups.length = pathNames.length &&
      urlParams.all pathNames.contains && pathNames.all urlParams.contains then [] else ["url-path-bijection"]) ++
  -- every non-context parameter referenced by exactly one binding annotation, each annotation references a parameter
  (if nonCtx.all (fun p => (binds.filter (·.value = p.name)).length = 1) then [] else ["param-referenced-once"]) ++
  (if binds.all (fun a => nonCtx.any (·.name = a.value)) then [] else ["annotation-references-param"]) ++
  -- at most one body, never body + form
  (if (binds.filter (·.name = "Body")).length ≤ 1 && !((binds.any (·.name = "Body")) && binds.any (·.name = "FormField")) then [] else ["body-form"]) ++
  -- non-body parameters are primitives / enums / primitive aliases, slices only in query
  (if binds.all (fun a => a.name = "Body" || (nonCtx.filter (·.name = a.value)).all fun p =>
        isPrimitiveLike env p.type && (!isIterable p.type || a.name = "Query")) then [] else ["non-body-primitive"]) ++
  -- returns error or (T, error)
  (if (match m.results with
        | [e] => isErrorType e || env.errorTypes.contains (stripPtr e)
        | [_, e] => isErrorType e || env.errorTypes.contains (stripPtr e)
        | _ => false) then [] else ["returns"]) ++
  (if Gleece.Generated.routeSupportedHttpVerbs.contains verb then [] else ["verb"])

/-- signatures of the recorded C10 findings on a method that the validators judge differently from
    `wellLinked` -/
def c10FindingOf (ctrlRoute : String) (m : Method) (accepted : Bool) (wl : List String) : String :=
  let route := ((m.annots.filter (·.name = "Route")).head?.map (·.value)).getD ""
  let urlParams := extractUrlParams (ctrlRoute ++ route)
  let paths := m.annots.filter (·.name = "Path")
  let unaliasedOutside := paths.any fun a => (match aliasOf a with | .none => true | .ok v => v.isEmpty | .bad => false) && !urlParams.contains a.value
  if accepted && !wl.isEmpty then
    -- C10-F2 (what is left of it): a @Path without alias whose name is no `{name}` of the full template is never
    -- reported (the check is pinned away by test/diagnostics).  The prefix half - `{x}` of the controller's own
    -- @Route never linked - is repaired in /repo and no longer excused here.
    if wl = ["url-path-bijection"] && unaliasedOutside then "C10-F2" else ""
  else ""

def checkC10 (p : PProject) (impl : Json) : PropOut := Id.run do
  -- the printed sources do not compile (two perturbations colliding on one method, …): `packages.Load` refuses the
  -- project before gleece looks at a single annotation — not a case about the validators
  if (jstrD impl "setupErr").startsWith "pipeline: encountered" then
    return { model := Json.str "uncompilable-source", implView := Json.str "uncompilable-source", nontrivial := false, notes := ["d:uncompilable-source"] }
  let md := (modelDiags p).map fun ds => dedupConflicts (ds ++ conflictDiags p)
  let idg := dedupConflicts (implDiags impl)
  let valErr := jstrD impl "validateErr"
  let mut fails : List String := []
  let mut mfails : List String := []
  let mview : Json := match md with
    | some ds => Json.mkObj [("diags", Json.arr (sortDiags ds).toArray)]
    | none => Json.mkObj [("diags", Json.str "hard-error")]
  let iview : Json := if valErr ≠ "" then Json.mkObj [("diags", Json.str "hard-error")] else Json.mkObj [("diags", Json.arr (sortDiags idg).toArray)]
  -- the property on the implementation's own verdict
  let mut nWl := 0; let mut nBad := 0
  if valErr = "" && jstrD impl "graphErr" = "" && jstrD impl "setupErr" = "" && jstrD impl "configErr" = "" then
    for c in p.controllers do
      if c.noEmbed then continue
      let ctrlRoute := ctrlRouteOf c.annots
      for pm in c.methods do
        if !isRoute pm.m then continue
        let wl := wellLinked p.env ctrlRoute pm.m
        let rejected := idg.any fun d => d.controller = c.name && d.entity = pm.m.name && d.severity = 1 && d.code ≠ "receiver-missing-security"
        if wl.isEmpty then nWl := nWl + 1 else nBad := nBad + 1
        -- annotation-level well-formedness (unknown annotation, bad status code, …) is a separate ground for rejection
        -- (the declarative rules of `AnnotsWellFormed`, proved sufficient in C10Common.lean; the model's own validator must
        -- give the same verdict)
        if annotsWellFormedB pm.m.annots == (commonValidate "route" pm.m.annots).any (·.severity = 1) then
          mfails := mfails ++ [s!"annots-well-formed-vs-model:{c.name}.{pm.m.name}"]
        let annotErr := !annotsWellFormedB pm.m.annots ||
          -- an alias that is not a string is a malformed annotation, reported by the link validator as an error
          pm.m.annots.any (fun a => a.name = "Path" && aliasOf a = .bad) ||
          -- a method the generated router could not call (C09's ground for rejection, not C10's)
          !isExportedName pm.m.name
        -- the driver's de-duplicated link findings and the proved model agree on emptiness
        if (linkFindings (ctrlRouteOf c.annots) pm.m).isEmpty != (linkValidate (ctrlRouteOf c.annots) pm.m).isEmpty then mfails := mfails ++ [s!"link-findings-vs-model:{c.name}.{pm.m.name}"]
        if wl.isEmpty && rejected && !annotErr then
          let fid := c10FindingOf ctrlRoute pm.m false wl
          fails := fails ++ [(if fid.isEmpty then "" else fid ++ ":") ++ s!"well-linked-route-rejected:{c.name}.{pm.m.name}"]
        if !wl.isEmpty && !rejected then
          let fid := c10FindingOf ctrlRoute pm.m true wl
          fails := fails ++ [(if fid.isEmpty then "" else fid ++ ":") ++ s!"ill-linked-route-accepted:{c.name}.{pm.m.name}:{wl}"]
  else if valErr ≠ "" then
    -- the validators gave up with a hard error instead of diagnostics
    let allWl := p.controllers.all fun c => c.noEmbed ||
      (let ctrlRoute := ctrlRouteOf c.annots
       c.methods.all fun pm => !isRoute pm.m || (wellLinked p.env ctrlRoute pm.m).isEmpty)
    -- C10-F1: a parameter named like the value of an earlier annotation of another kind
    let shadowed := p.controllers.any fun c => c.methods.any fun pm => pm.m.params.any fun q =>
      match findFirstByValue pm.m.annots q.name with
      | some a => !(bindingNames.contains a.name)
      | none => false
    -- a `scopes` property that is not an array of strings cannot be read at all: the validators give up with an
    -- error (not a diagnostic); that is a refusal of a malformed annotation, not of a well-linked project
    let malformedScopes := p.controllers.any fun c => (c.annots :: c.methods.map (·.m.annots)).any fun as => as.any fun a =>
      a.name = "Security" && (match a.props.find? (·.1 = "scopes") with
        | some (_, k, v) => k != .arr || v.startsWith (String.singleton (Char.ofNat 2))
        | none => false)
    if allWl && !malformedScopes then fails := fails ++ [(if shadowed then "C10-F1:" else "") ++ "well-linked-project-rejected-with-hard-error"]
  if valErr = "" && jstrD impl "graphErr" = "" && jstrD impl "setupErr" = "" && jstrD impl "configErr" = "" then
    -- … else blocks all output
    let anyErr := idg.any (·.severity = 1)
    let produced := (impl.getObjVal? "ir").toOption.isSome || (impl.getObjVal? "out").toOption.isSome
    if anyErr && produced then fails := fails ++ ["output-despite-error-diagnostic"]
    if anyErr && jstrD impl "runErr" ≠ "error-diagnostics" then fails := fails ++ ["error-diagnostic-not-fatal"]
  return { model := mview, implView := iview, implFails := fails, modelFails := mfails, nontrivial := nBad > 0 || nWl > 0,
           notes := [s!"d:well-linked={nWl}", s!"d:ill-linked={nBad}"] ++ (if valErr ≠ "" then ["d:hard-error"] else []) }

/-! ### C18 -/

def valueCodes : List String :=
  ["route-conflict", "linker-multiple-parameter-refs", "unsupported-feature", "annotation-value-invalid"]

def checkC18 (p : PProject) (impl : Json) : PropOut := Id.run do
  -- the printed sources do not compile (two perturbations colliding on one method, …): `packages.Load` refuses the
  -- project before gleece looks at a single annotation — not a case about the validators
  if (jstrD impl "setupErr").startsWith "pipeline: encountered" then
    return { model := Json.str "uncompilable-source", implView := Json.str "uncompilable-source", nontrivial := false, notes := ["d:uncompilable-source"] }
  let mut fails : List String := []
  let diags := (jarrD impl "diags").toList
  let spans := (jarrD impl "_spans").toList
  let mut seen : List String := []
  let mut nValue := 0
  for d in diags do
    let ctrl := jstrD d "controller"; let ent := jstrD d "entity"; let code := jstrD d "code"
    let rng := (jarrD d "range").toList.filterMap (·.getNat?.toOption)
    let key := s!"{ctrl}|{ent}|{code}|{rng}|{jstrD d "_message"}"
    -- no diagnostic is reported twice
    if seen.contains key then fails := fails ++ [s!"duplicate-diagnostic:{ctrl}.{ent}:{code}"]
    seen := seen ++ [key]
    match spans.find? fun s => jstrD s "controller" = ctrl && jstrD s "entity" = ent with
    | none => fails := fails ++ [s!"no-span:{ctrl}.{ent}"]
    | some sp =>
      -- the file that contains the offending controller / method
      if jstrD d "file" ≠ jstrD sp "file" then fails := fails ++ [s!"wrong-file:{ctrl}.{ent}:{code}:{jstrD d "file"}"]
      match rng with
      | [sl, sc, el, ec] =>
        if !(jboolD d "rangeInFile") then fails := fails ++ [s!"range-outside-file:{ctrl}.{ent}:{code}"]
        if !(sl < el || (sl = el && sc ≤ ec)) then fails := fails ++ [s!"start-after-end:{ctrl}.{ent}:{code}"]
        -- inside the comment or declaration it concerns
        let a := (jnat sp "start").toOption.getD 0; let b := (jnat sp "end").toOption.getD 0
        if !(a ≤ sl && el ≤ b) then fails := fails ++ [s!"range-outside-entity:{ctrl}.{ent}:{code}:{sl}-{el} not in {a}-{b}"]
      | _ => fails := fails ++ [s!"negative-or-malformed-range:{ctrl}.{ent}:{code}"]
    -- a diagnostic about an annotation's value covers text equal to that value
    let covered := jstrD d "covered"
    let annots : List Annot := (p.controllers.filter (·.name = ctrl)).flatMap fun c =>
      if ent = "" then c.annots else (c.methods.filter (·.m.name = ent)).flatMap (·.m.annots)
    if valueCodes.contains code && !((jstrD d "_message").startsWith "Method '") then
      nValue := nValue + 1
      if !(annots.any (·.value = covered)) then fails := fails ++ [s!"value-range-text:{ctrl}.{ent}:{code}:'{covered}'"]
    -- the link validator's complaint about a property VALUE (an alias that is not a string) covers the properties
    -- object of that annotation: `{ … }`, in characters, not bytes
    if code = "annotation-properties-invalid-value-for-key" && (jnat d "severity").toOption.getD 0 = 1 then
      nValue := nValue + 1
      if !(covered.startsWith "{" && covered.endsWith "}") then
        fails := fails ++ [s!"properties-range-text:{ctrl}.{ent}:'{covered}'"]
    if code = "linker-route-missing-path-reference" || code = "linker-duplicate-url-parameter" then
      nValue := nValue + 1
      -- the message names the parameter: `URL parameter 'x' …` / `Duplicate URL parameter 'x'`
      let pname := ((jstrD d "_message").splitOn "'").getD 1 ""
      let ownRoute := ((annots.filter (·.name = "Route")).head?.map (·.value)).getD ""
      -- a `{x}` of the method's own @Route is covered exactly; a `{x}` of the controller's prefix (linked since fix
      -- 6007590) has no text inside the method's comment: the diagnostic covers the method's whole @Route value
      let expected := if (ownRoute.splitOn ("{" ++ pname ++ "}")).length > 1 then "{" ++ pname ++ "}" else ownRoute
      if covered ≠ expected then
        fails := fails ++ [s!"url-param-range-text:{ctrl}.{ent}:'{covered}' expected '{expected}'"]
  -- … nor in the command's error text (C18-F1: pinned by test/diagnostics: an entity is printed once per error it carries)
  let dup := (jnat impl "dupEntityBlocks").toOption.getD 0
  if dup > 0 then fails := fails ++ [s!"C18-F1:entity-block-repeated-in-error-text:{dup}"]
  -- codes and severities: those of the validator model (shared with C10)
  let md := (modelDiags p).map fun ds => dedupConflicts (ds ++ conflictDiags p)
  let mview : Json := match md with
    | some ds => Json.arr (sortDiags ds).toArray
    | none => Json.str "hard-error"
  let iview : Json := if jstrD impl "validateErr" ≠ "" then Json.str "hard-error" else Json.arr (sortDiags (dedupConflicts (implDiags impl))).toArray
  return { model := mview, implView := iview, implFails := fails, nontrivial := !diags.isEmpty,
           notes := [s!"d:diagnostics={diags.length}", s!"d:value-diagnostics={nValue}"] }

/-! ### C13 / C19 -/

def accepted (impl : Json) : Bool :=
  jstrD impl "configErr" = "" && jstrD impl "setupErr" = "" && jstrD impl "graphErr" = "" && jstrD impl "validateErr" = "" && jstrD impl "runErr" = ""

/-- two declarations with one bare name: the model lists (sorted by name only) and the component map keep
    whichever comes last, which varies from run to run — a consequence of C07-F4 -/
def typeNameCollision (p : PProject) : Bool :=
  let names := p.types.map (jstrD · "name")
  names.eraseDups.length < names.length

def checkC13 (p : PProject) (impl : Json) : PropOut := Id.run do
  let det := (impl.getObjVal? "determinism").toOption.getD Json.null
  if !accepted impl || det == Json.null then
    return { model := Json.str "not-accepted", implView := Json.str "not-accepted", nontrivial := false, notes := ["d:not-accepted"] }
  let n (k : String) := (jnat det k).toOption.getD 0
  let mut fails : List String := []
  if n "routesDistinct" ≠ 1 then fails := fails ++ [s!"routes-file-not-reproducible:{n "routesDistinct"}-distinct-contents-in-{n "runs"}-runs"]
  let fid := if typeNameCollision p then "C07-F4:" else ""
  if n "spec30Distinct" ≠ 1 then fails := fails ++ [fid ++ s!"spec-3.0-not-reproducible:{n "spec30Distinct"}"]
  if n "spec31Distinct" > 1 then fails := fails ++ [fid ++ s!"spec-3.1-not-reproducible:{n "spec31Distinct"}"]
  if n "specDistinctAcrossEngines" ≠ 1 then fails := fails ++ [s!"spec-depends-on-engine:{n "specDistinctAcrossEngines"}"]
  if !(jboolD det "dateOnlyDifference") then fails := fails ++ ["routes-differ-beyond-the-date-comment"]
  let view (j : Json) := Json.mkObj [("routesDistinct", (jnat j "routesDistinct").toOption.getD 0), ("spec30Distinct", (jnat j "spec30Distinct").toOption.getD 0),
    ("specDistinctAcrossEngines", (jnat j "specDistinctAcrossEngines").toOption.getD 0), ("dateOnlyDifference", jboolD j "dateOnlyDifference")]
  let want := Json.mkObj [("routesDistinct", (1 : Nat)), ("spec30Distinct", (1 : Nat)), ("specDistinctAcrossEngines", (1 : Nat)), ("dateOnlyDifference", true)]
  return { model := want, implView := view det, implFails := fails, nontrivial := true, notes := [s!"d:runs={n "runs"}"] }

def checkC19 (p : PProject) (impl : Json) : PropOut := Id.run do
  let reps := strList impl "repeats"
  if !accepted impl || reps.isEmpty then
    return { model := Json.str "not-accepted", implView := Json.str "not-accepted", nontrivial := false, notes := ["d:not-accepted"] }
  let counts := (jarrD impl "graphCounts").toList.filterMap (·.getNat?.toOption)
  let mut fails : List String := []
  let fid := if typeNameCollision p then "C07-F4:" else ""
  if !(reps.all (· = "same")) then fails := fails ++ [fid ++ s!"repeated-analysis-differs:{reps}"]
  if jstrD impl "fresh" ≠ "same" then fails := fails ++ [fid ++ s!"fresh-session-differs:{jstrD impl "fresh"}"]
  if !(counts.all (· = counts.headD 0)) then fails := fails ++ [s!"graph-grows:{counts}"]
  let view := Json.mkObj [("repeats", Json.arr (reps.map Json.str).toArray), ("fresh", jstrD impl "fresh"), ("stable", counts.all (· = counts.headD 0))]
  let want := Json.mkObj [("repeats", Json.arr (reps.map fun _ => Json.str "same").toArray), ("fresh", "same"), ("stable", true)]
  return { model := want, implView := view, implFails := fails, nontrivial := true, notes := [s!"d:rounds={reps.length}"] }

/-- C15 at project level: which receivers carry a `route-conflict` warning = which routes `Gleece.Paths.findConflicts`
    flags on the FULL templates (controller prefix + method route) of ALL routes of the project — whatever other
    diagnostics their controllers have -/
def checkC15 (p : PProject) (impl : Json) : PropOut := Id.run do
  if (jstrD impl "setupErr").startsWith "pipeline: encountered" then
    return { model := Json.str "uncompilable-source", implView := Json.str "uncompilable-source", nontrivial := false, notes := ["d:uncompilable-source"] }
  if jstrD impl "validateErr" ≠ "" || jstrD impl "graphErr" ≠ "" || jstrD impl "setupErr" ≠ "" || jstrD impl "configErr" ≠ "" then
    return { model := Json.str "not-validated", implView := Json.str "not-validated", nontrivial := false, notes := ["d:not-validated"] }
  let md := dedupConflicts (conflictDiags p)
  let idg := dedupConflicts ((implDiags impl).filter (·.code = "route-conflict"))
  let missing := md.filter fun d => !idg.contains d
  let extra := idg.filter fun d => !md.contains d
  let fails := (missing.map fun d => s!"overlap-not-reported:{d.controller}.{d.entity}") ++ (extra.map fun d => s!"conflict-reported-without-overlap:{d.controller}.{d.entity}")
  return { model := Json.arr (sortDiags md).toArray, implView := Json.arr (sortDiags idg).toArray, implFails := fails,
           nontrivial := !md.isEmpty, notes := [s!"d:conflicting-receivers={md.length}"] }

def projHandler : Handler := fun prop input impl => do
  let p := parseProject input
  let implJ := impl.getD Json.null
  let out : PropOut ← match prop with
    | "C10" => pure (checkC10 p implJ)
    | "C15" => pure (checkC15 p implJ)
    | "C18" => pure (checkC18 p implJ)
    | "C13" => pure (checkC13 p implJ)
    | "C19" => pure (checkC19 p implJ)
    | q => throw s!"mode proj: no check for property {q}"
  let tag (pre : String) (f : String) :=
    if f.length > 4 && f.get 0 = 'C' && (f.splitOn "-F").length > 1 && (f.splitOn ":").length > 1 && ((f.splitOn ":")[0]!).length ≤ 8
    then pre ++ f else pre ++ "new:" ++ f
  let implFails := if impl.isNone then ["no-answer"] else out.implFails
  pure { model := out.model, implView := some out.implView, specModel := out.modelFails.isEmpty, specImpl := implFails.isEmpty,
         nontrivial := out.nontrivial,
         notes := (implFails.take 8).map (tag "implfail:") ++ (out.modelFails.take 8).map (tag "modelfail:") ++ out.notes }

end Gleece.Driver
