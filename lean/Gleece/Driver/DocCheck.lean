import Gleece.Driver.IR
import Gleece.Driver.ConvCheck
import Gleece.Model.Doc
open Lean
namespace Gleece.Driver
open Gleece.Doc

partial def collectRefs (j : Json) : List String :=
  match j with
  | .obj kvs => kvs.toList.flatMap fun (k, v) =>
      if k = "$ref" then (match v with | .str s => [((s.splitOn "/").getLast?.getD s)] | _ => []) else collectRefs v
  | .arr xs => xs.toList.flatMap collectRefs
  | _ => []

def jsonKind : Json → String
  | .str _ => "string" | .num _ => "number" | .bool _ => "boolean" | .null => "null" | .arr _ => "array" | .obj _ => "object"

/-- every schema object carrying both `enum` and `type`, anywhere in the document -/
partial def collectEnums (name : String) (j : Json) : List DEnum :=
  match j with
  | .obj kvs =>
    let here := match (j.getObjVal? "enum").toOption, (jstr j "type").toOption with
      | some (.arr ms), some t => [⟨name, t, ms.toList.map jsonKind⟩]
      | _, _ => []
    here ++ kvs.toList.flatMap fun (k, v) => if k = "enum" then [] else collectEnums (name ++ "/" ++ k) v
  | .arr xs => xs.toList.flatMap (collectEnums name)
  | _ => []

/-- every string under a `type` key inside schemas (a PROPERTY named `type` has an object as its value, not a string) -/
partial def collectTypes : Json → List String
  | .obj kvs => kvs.toList.flatMap fun (k, v) =>
      if k = "type" then (match v with
        | .str s => [s]
        | .arr xs => xs.toList.filterMap fun x => match x with | .str s => some s | _ => none
        | o => collectTypes o)
      else if k = "example" || k = "default" || k = "enum" || k = "securitySchemes" || k = "security" then [] else collectTypes v
  | .arr xs => xs.toList.flatMap collectTypes
  | _ => []

def docOfJson (doc : Json) : Doc :=
  let comps := ((doc.getObjVal? "components").toOption.bind (·.getObjVal? "schemas" |>.toOption)).getD Json.null
  { ops := (docOperations doc).map fun (v, p, op) =>
      { verb := v, path := p,
        params := (jarrD op "parameters").toList.map fun q => ⟨jstrD q "name", jstrD q "in", jboolD q "required"⟩,
        responsesDescribed := (objEntries ((op.getObjVal? "responses").toOption.getD Json.null)).all fun (_, r) => (r.getObjVal? "description").toOption.isSome,
        refs := collectRefs op },
    components := (objEntries comps).map (·.1),
    componentRefs := collectRefs comps,
    enums := collectEnums "" doc,
    title := jstrD ((doc.getObjVal? "info").toOption.getD Json.null) "title",
    version := jstrD ((doc.getObjVal? "info").toOption.getD Json.null) "version",
    servers := (jarrD doc "servers").toList.map (jstrD · "url"),
    schemes := (objEntries (((doc.getObjVal? "components").toOption.bind (·.getObjVal? "securitySchemes" |>.toOption)).getD Json.null)).map (·.1),
    schemaTypes := collectTypes comps ++ collectTypes ((doc.getObjVal? "paths").toOption.getD Json.null) }

/-- C08 on whatever documents were emitted -/
def checkC08 (d : IRDoc) (impl : Json) : PropOut := Id.run do
  let mut fails : List String := []
  let mut views : List (String × Json) := []
  let mut emitted := false
  let ct := convTie d ((specView impl "spec30").doc) ((specView impl "spec31").doc)
  for (k, is30) in [("spec30", true), ("spec31", false)] do
    let sv := specView impl k
    match sv.err with
    | some e => views := views ++ [(k, Json.str (if (e.splitOn "PANIC").length > 1 then "panic" else "error"))]
    | none =>
      emitted := true
      let dd := docOfJson sv.doc
      let bad := check dd (jstrD d.cfgJson "title") (jstrD d.cfgJson "version") [jstrD d.cfgJson "baseUrl"] d.cfg.schemes.eraseDups
      views := views ++ [(k, Json.arr (bad.map Json.str).toArray)]
      for b in bad do
        -- C08-F1: 3.0 lists the members of a non-string enum COMPONENT as strings (pinned by the e2e asset)
        let offending := dd.enums.filter fun e => !e.memberKinds.all (· = kindOfType e.type)
        let atComponentTop (e : DEnum) : Bool := (e.name.splitOn "/properties/").length = 1 && e.name.startsWith "/components/schemas/"
        let fid := if b = "enum-values-typed" && is30 && offending.all (fun e => e.memberKinds.all (· = "string") && atComponentTop e)
          then "C08-F1:"
          -- C08-F4 (= C07-F7): 3.1 renders a member of a STRING enum component that reads as another YAML scalar as that scalar
          else if b = "enum-values-typed" && !is30 && offending.all (fun e => atComponentTop e && e.type = "string")
          then "C08-F4:"
          -- C08-F3: members of an `enum=` / `oneof=` rule that are not values of the schema's type are written all
          -- the same - on a USAGE site (parameter, field), and only where the converter model predicts it
          else if b = "enum-values-typed" && (if is30 then ct.mistyped30 else ct.mistyped31) && offending.all (fun e => !atComponentTop e || is30 && e.memberKinds.all (· = "string"))
          then "C08-F3:" else ""
        fails := fails ++ [fid ++ k ++ ":" ++ b]
  let expected := Json.mkObj (views.map fun (k, v) => (k, match v with | .arr _ => Json.arr #[] | o => o))
  return { model := expected, implView := Json.mkObj views, implFails := fails, nontrivial := emitted,
           notes := if emitted then [] else ["d:nothing-emitted"] }

/-- C14 on the IR stream: whatever the validator tags, both emitters and every router generator end with
    a document / a file or with an error — never with a panic (the harness turns a recovered panic into
    `PANIC: …`; a dead worker process is reported by the orchestrator) -/
def checkC14 (_d : IRDoc) (impl : Json) : PropOut := Id.run do
  let mut fails : List String := []
  let mut iv : List (String × Json) := []
  let mut mv : List (String × Json) := []
  let status (e : Option String) : String := match e with
    | none => "ok"
    | some m => if (m.splitOn "PANIC").length > 1 then "panic" else "error"
  for k in ["spec30", "spec31"] do
    let sv := specView impl k
    let st : String := status sv.err
    iv := iv ++ [(k, Json.str st)]
    mv := mv ++ [(k, Json.str (if st == "panic" then "error" else st))]
    if st == "panic" then fails := fails ++ [s!"{k}:panic:{(sv.err.getD "").take 120}"]
  for (en, rj) in objEntries ((impl.getObjVal? "routes").toOption.getD Json.null) do
    let st : String := status (jstr rj "err").toOption
    iv := iv ++ [(en, Json.str st)]
    mv := mv ++ [(en, Json.str (if st == "panic" then "error" else st))]
    if st == "panic" then fails := fails ++ [s!"{en}:panic"]
  return { model := Json.mkObj mv, implView := Json.mkObj iv, implFails := fails, nontrivial := true }

end Gleece.Driver
