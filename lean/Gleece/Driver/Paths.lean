import Gleece.Driver.Common
import Gleece.Model.Paths
open Lean
namespace Gleece.Driver
open Gleece.Paths

def conflictsToJson (cs : List Conflict) : Json :=
  Json.arr (cs.map fun c => Json.mkObj [("a", c.a.id), ("b", c.b.id), ("reason", c.reason)]).toArray

def pathsHandler : Handler := fun _prop input impl => do
  let arr ← input.getArr?
  let raw ← arr.toList.mapM fun j => do pure ((← jstr j "verb"), (← jstr j "path"))
  let es := mkEntries raw
  let out := findConflicts es
  let namedM := out.map fun c => (c.a.id, c.b.id)
  let namedI : Option (List (Nat × Nat)) := do
    let j ← impl
    let a ← j.getArr?.toOption
    a.toList.mapM fun c => do pure ((← (jnat c "a").toOption), (← (jnat c "b").toOption))
  let sM := specSound es namedM
  let cM := specComplete es namedM
  let (sI, cI) := match namedI with
    | some n => (specSound es n, specComplete es n)
    | none => (false, false)
  let nontriv := es.any fun e => es.any (overlaps e)
  let notes := (if sI then [] else ["impl:unsound"]) ++ (if cI then [] else ["impl:incomplete"])
    ++ (if sM then [] else ["model:unsound"]) ++ (if cM then [] else ["model:incomplete"])
    ++ [s!"len={es.length}", s!"conflicts={out.length}"]
  pure { model := conflictsToJson out, specModel := sM && cM, specImpl := sI && cI, nontrivial := nontriv, notes }

end Gleece.Driver
