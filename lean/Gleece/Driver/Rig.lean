/-
  Mode "rig": the request-level model (`Gleece.Serve`, theorems in Properties/Serve) against the five
  COMPILED routers serving the same requests, plus the compile / parse / package facts of the rendered
  files (C09).
-/
import Gleece.Driver.ReduceCheck
import Gleece.Model.Serve
open Lean
namespace Gleece.Driver
open Gleece.Reduce Gleece.Serve Gleece.Validate Gleece.Router

def hexVal (c : Char) : Option Nat :=
  if c.isDigit then some (c.toNat - 48)
  else if 'a' ≤ c && c ≤ 'f' then some (c.toNat - 87)
  else if 'A' ≤ c && c ≤ 'F' then some (c.toNat - 55)
  else none

/-- percent-decoding to BYTES, then UTF-8 -/
partial def pctBytes (plusIsSpace : Bool) : List Char → List UInt8
  | '%' :: a :: b :: rest =>
    match hexVal a, hexVal b with
    | some x, some y => UInt8.ofNat (x * 16 + y) :: pctBytes plusIsSpace rest
    | _, _ => ('%'.toString.toUTF8.toList) ++ pctBytes plusIsSpace (a :: b :: rest)
  | '+' :: rest => (if plusIsSpace then 32 else 43) :: pctBytes plusIsSpace rest
  | c :: rest => c.toString.toUTF8.toList ++ pctBytes plusIsSpace rest
  | [] => []

def pctDecode (plusIsSpace : Bool) (s : String) : String :=
  let bytes := ByteArray.mk (pctBytes plusIsSpace s.toList).toArray
  (String.fromUTF8? bytes).getD s

def parseTarget (target : String) : List String × List (String × String) :=
  let (path, query) := match target.splitOn "?" with
    | [p] => (p, "")
    | p :: q => (p, "?".intercalate q)
    | [] => ("", "")
  let segs := ((path.splitOn "/").filter (· ≠ "")).map (pctDecode false)
  let q := if query.isEmpty then [] else (query.splitOn "&").map fun kv =>
    match kv.splitOn "=" with
    | [k] => (pctDecode true k, "")
    | k :: v => (pctDecode true k, pctDecode true ("=".intercalate v))
    | [] => ("", "")
  (segs, q)

def jsonStrLit (s : String) : String := (Json.str s).compress

def parseReq (j : Json) : Req :=
  let (segs, q) := parseTarget (jstrD j "path")
  let body := jstrD j "body"
  let parsed := (Json.parse body).toOption
  let itemName (b : Json) : Option String := (b.getObjVal? "name").toOption.bind (·.getStr?.toOption)
  let itemText (b : Json) : String :=
    "{\"name\":" ++ jsonStrLit ((itemName b).getD "") ++ ",\"count\":" ++ toString (((b.getObjVal? "count").toOption.bind (·.getInt?.toOption)).getD 0) ++ "}"
  let itemCount (b : Json) : Int := ((b.getObjVal? "count").toOption.bind (·.getInt?.toOption)).getD 0
  let name := parsed.bind itemName
  let count := (parsed.bind fun b => (b.getObjVal? "count").toOption.bind (·.getInt?.toOption)).getD 0
  -- Employee{name required; dept required + member of the generated dept_enum validator}
  let isEmployee := jstrD j "bodyType" = "Employee"
  let dept := (parsed.bind fun b => (b.getObjVal? "dept").toOption.bind (·.getStr?.toOption)).getD ""
  let empOk := parsed.isSome && (name.map (!·.isEmpty)).getD false && ["eng", "r&d"].contains dept
  let empText := "{\"name\":" ++ jsonStrLit (name.getD "") ++ ",\"dept\":" ++ jsonStrLit dept ++ "}"
  -- Wrap{meta Meta `required` (a no-op on a by-value struct); name required}
  let isWrap := jstrD j "bodyType" = "Wrap"
  let note := (parsed.bind fun b => (b.getObjVal? "meta").toOption.bind fun m => (m.getObjVal? "note").toOption.bind (·.getStr?.toOption)).getD ""
  let wrapOk := parsed.isSome && (name.map (!·.isEmpty)).getD false
  let wrapText := "{\"meta\":{\"note\":" ++ jsonStrLit note ++ "},\"name\":" ++ jsonStrLit (name.getD "") ++ "}"
  -- Page[[]string]{items}: nothing is validated; the controller receives what was sent
  let isPage := jstrD j "bodyType" = "Page"
  let pageText := (parsed.map (·.compress)).getD ""
  { method := jstrD j "method", segs := segs, query := q,
    headers := (objEntries ((j.getObjVal? "headers").toOption.getD Json.null)).map fun (k, v) => (k, v.getStr?.toOption.getD ""),
    form := (objEntries ((j.getObjVal? "form").toOption.getD Json.null)).filterMap fun (k, v) =>
      match v with | .arr xs => xs[0]?.map fun x => (k, x.getStr?.toOption.getD "") | _ => none,
    hasBody := !body.isEmpty,
    bodyOk := if isPage then parsed.isSome else if isEmployee then empOk else if isWrap then wrapOk else (match parsed with
      | some (.arr xs) => xs.toList.all fun x => ((itemName x).map (!·.isEmpty)).getD false && itemCount x ≥ 0    -- every element is validated
      | some _ => (name.map (!·.isEmpty)).getD false && count ≥ 0      -- Item{name required; count gte=0}
      | none => false),
    body := if isPage then pageText else if isEmployee then empText else if isWrap then wrapText else (match parsed with
      | some (.arr xs) => "[" ++ " ".intercalate (xs.toList.map itemText) ++ "]"
      | _ => "{\"name\":" ++ jsonStrLit (name.getD "") ++ ",\"count\":" ++ toString count ++ "}"),
    deny := strList j "deny" }

def buildRoutes (p : PProject) : Option (List SRoute) :=
  let rs := p.controllers.map fun c =>
    if c.noEmbed then some [] else
    let ms := (c.methods.filter (isRoute ·.m)).map (·.m)
    (reduceController c.name c.annots p.defaultSecurity ms).map fun rc =>
      rc.routes.map fun r =>
        let m := (ms.find? (·.name = r.opId)).getD default
        let raw := ((c.methods.find? (·.m.name = r.opId)).map (·.raw)).getD Json.null
        { ctrl := c.name, ctrlPath := rc.path, r := r,
          infos := r.params.map fun rp => ⟨rp, ((m.params.find? (·.name = rp.name)).map (·.type)).getD ""⟩,
          setStatus := (match (jnat raw "setStatus").toOption with | some 0 => none | o => o),
          fails := jboolD raw "fail",
          customErr := (m.results.getLast?.map fun t => t != "error").getD false }
  if rs.any Option.isNone then none else some (rs.filterMap id).flatten

def checkLine (c : Check) : String := "auth " ++ c.scheme ++ "[" ++ " ".intercalate c.scopes ++ "]"

/-- (status class, log) a response must show for an outcome -/
def expectedView (denyStatus : String) : Outcome → String × List String
  | .notServed => ("not-served", [])
  | .refused asked => (denyStatus, asked.map checkLine)
  | .invalid asked => ("422", asked.map checkLine)
  | .called asked op args st => (toString st, asked.map checkLine ++ ["call " ++ op ++ "(" ++ ",".intercalate args ++ ")"])

def statusClass (st : Int) : String :=
  if st = 404 || st = 405 || st = 301 || st = 307 || st = 308 then "not-served" else toString st

def outcomeJson (v : String × List String) : Json := Json.mkObj [("status", v.1), ("log", Json.arr (v.2.map Json.str).toArray)]

def isAuthLine (s : String) : Bool := s.startsWith "auth "

/-- which aspect differs: route dispatch, the authorization gate, or parameter binding -/
def diffClass (denyStatus : String) (want got : String × List String) : String :=
  if (want.1 = "not-served") != (got.1 = "not-served") then "served"
  else if want.2.filter isAuthLine ≠ got.2.filter isAuthLine || (want.1 = denyStatus) != (got.1 = denyStatus) then "auth"
  else "binding"

def checkRig (prop : String) (input : Json) (impl : Json) : PropOut := Id.run do
  let p := parseProject ((input.getObjVal? "project").toOption.getD Json.null)
  let reqs := (jarrD input "requests").toList
  let projErr := jstrD impl "projErr"
  if jboolD input "expectRefused" then
    -- a route whose last result is not an error type: refused before anything is generated
    let wrote := (objEntries ((impl.getObjVal? "files").toOption.getD Json.null)).any fun (_, f) => jboolD f "written"
    let ok := !projErr.isEmpty && !wrote
    return { model := Json.str "refused", implView := Json.str (if ok then "refused" else "accepted"),
             implFails := if ok then [] else [s!"uncompilable-project-accepted:buildErr={(jstrD impl "buildErr").take 160}"], nontrivial := prop = "C09",
             notes := ["d:expect-refused"] }
  if !projErr.isEmpty then
    -- the generator only emits projects the tool must accept
    return { model := Json.str "accepted", implView := Json.str ("refused: " ++ projErr.take 120), implFails := ["rig-project-refused"], nontrivial := false }
  let files := objEntries ((impl.getObjVal? "files").toOption.getD Json.null)
  let mut fails : List String := []
  let mut notes : List String := [s!"d:requests={reqs.length}"]
  -- C09: every rendered file exists, parses, carries the configured package clause, and the whole module compiles
  let mut c09 : List String := []
  for (e, f) in files do
    if !(jstrD f "err").isEmpty then c09 := c09 ++ [s!"generation-error:{e}"]
    if !jboolD f "written" then c09 := c09 ++ [s!"no-file:{e}"]
    else
      if !jboolD f "parses" then c09 := c09 ++ [s!"does-not-parse:{e}"]
      if jstrD f "package" ≠ "r" ++ e then c09 := c09 ++ [s!"package-clause:{e}:{jstrD f "package"}"]
      if !jboolD f "gofmt" then c09 := c09 ++ [s!"C09-F1:not-gofmt-formatted:{e}"]
  -- a project the generator cannot render compilable code for is refused: an error and NO file
  let genFailed := files.any fun (_, f) => !(jstrD f "err").isEmpty
  if genFailed then
    let wrote := files.filter fun (_, f) => !(jstrD f "err").isEmpty && jboolD f "written"
    let fs := wrote.map fun (e, _) => s!"file-written-despite-generation-error:{e}"
    if prop = "C09" then
      return { model := Json.str "refused-without-output", implView := Json.str (if fs.isEmpty then "refused-without-output" else "wrote-a-file"),
               implFails := fs, nontrivial := true, notes := notes ++ ["d:generation-refused"] }
    return { model := Json.str "not-generated", implView := Json.str "not-generated", nontrivial := false, notes := ["d:generation-refused"] }
  let buildErr := jstrD impl "buildErr"
  if !buildErr.isEmpty then c09 := c09 ++ [s!"does-not-compile:{(buildErr.replace "\n" " | ").take 300}"]
  if prop = "C09" then
    return { model := Json.str "compiles", implView := Json.str (if buildErr.isEmpty then "compiles" else "does-not-compile"),
             implFails := c09, nontrivial := true, notes := notes ++ ["d:engines=5"] }
  if !buildErr.isEmpty then
    return { model := Json.str "compiles", implView := Json.str "does-not-compile", implFails := [s!"C09:does-not-compile:{(buildErr.replace "\n" " | ").take 200}"], nontrivial := false }
  let runErr := jstrD impl "runErr"
  if !runErr.isEmpty then fails := fails ++ [s!"rig-run-error:{runErr.take 160}"]
  match buildRoutes p with
  | none => return { model := Json.null, implView := Json.null, modelFails := ["model-reducer-refuses-rig-project"], nontrivial := false }
  | some routes =>
    let enums := (p.types.filter fun t => jstrD t "kind" = "enum" && jstrD t "base" = "string").map (jstrD · "name")
    let engines := objEntries ((impl.getObjVal? "engines").toOption.getD Json.null)
    let mut wants : List (String × Json) := []
    let mut gots : List (String × Json) := []
    for rq in reqs do
      let id := (jnat rq "id").toOption.getD 0
      let kind := jstrD rq "kind"
      let r := parseReq rq
      -- the status the authorization callback refuses with (the rig's callback takes it from the request)
      let denyBase := match (jnat rq "denyStatus").toOption with | some n => if n = 0 then 403 else n | none => 403
      -- `spread`: the i-th scheme of the deny list is refused with status base+i; the answer carries the LAST refusal's
      let denyStatus := toString (match serve enums routes r with
        | .refused asked =>
          if jboolD rq "spread" then denyBase + (match asked.getLast? with | some c => r.deny.idxOf c.scheme | none => 0) else denyBase
        | _ => denyBase)
      let want0 := expectedView denyStatus (serve enums routes r)
      -- routesConfig.validateResponsePayload: a declared struct result is validated before it is sent; the rig's
      -- controllers return zero values, and `Item.Name` is required, so such a route answers 500 AFTER the call
      let validateResp := jboolD ((input.getObjVal? "project").toOption.bind (·.getObjVal? "config" |>.toOption) |>.getD Json.null) "validateResponsePayload"
      let returnsItem := match findRoute routes r with
        | some (sr, _) => p.controllers.any fun c => c.methods.any fun pm => c.name = sr.ctrl && pm.m.name = sr.r.opId && (pm.m.results.head? = some "Item" || pm.m.results.head? = some "*Item")
        | none => false
      -- (whatever status the operation set itself; a FAILED operation is answered before the payload is looked at)
      let calledOk := match serve enums routes r, findRoute routes r with
        | .called .., some (sr, _) => !sr.fails
        | _, _ => false
      let want := if validateResp && returnsItem && calledOk then ("500", want0.2) else want0
      notes := notes ++ ["d:kind-" ++ (kind.splitOn ":").headD kind, "d:expect-" ++ want.1]
      let encodedPath := ((jstrD rq "path").splitOn "?").headD "" |>.any (· = '%')
      let emptyHeader := r.headers.any fun (_, v) => v.isEmpty
      -- C12-F4: fiber ends a `:name` at `-` (and `.`), so a template variable with a hyphen is another route there
      let hyphenVar := match findRoute routes r with
        | some (sr, _) => (templateSegs sr.ctrlPath sr.r.path).any fun t => isVar t && (varName t).any (fun c => c = '-' || c = '.')
        | none => false
      let mut views : List (String × (String × List String)) := []
      let mut bodies : List (String × String × String) := []      -- engine, status class, canonical body
      for (e, rs) in engines do
        let rl := (rs.getArr?.toOption.getD #[]).toList
        -- C12-F2: the router could not be set up at all (gin / httprouter: two names for one variable position)
        if rl.any (fun x => ((x.getObjVal? "status").toOption.bind (·.getInt?.toOption)) = some (-3)) then
          if prop = "C12" || prop = "C02" then
            let msg := (rl.head?.map (jstrD · "body")).getD ""
            fails := fails ++ [(if e = "gin" && (msg.splitOn "conflicts with existing wildcard").length > 1 then "C12-F2:" else "") ++ s!"router-registration-panics:{e}"]
          continue
        match rl.find? (fun x => (jnat x "id").toOption.getD 0 = id) with
        | none => fails := fails ++ [s!"no-response:{e}:{id}"]
        | some x =>
          let got0 : String × List String := (statusClass ((x.getObjVal? "status").toOption.bind (·.getInt?.toOption) |>.getD 0), strList x "log")
          -- a framework may answer OPTIONS by itself (echo: 204 + Allow) without entering any handler: nothing of the
          -- route ran - no authorization check, no controller call - so the verb is not SERVED by the generated router
          let got := if kind = "other-verb" && got0.2.isEmpty && got0.1 = "204" then ("not-served", []) else got0
          views := views ++ [(e, got)]
          let bodyText := jstrD x "body"
          let canonBody := match Json.parse bodyText with
            | .ok j => j.compress
            | .error _ => bodyText.trimAscii.toString
          bodies := bodies ++ [(e, got.1, canonBody)]
          -- a refusal that carries a payload of its own is answered with THAT payload (C03: "… or custom payload")
          if kind.startsWith "deny-all-custom-" && (prop = "C03" || prop = "C12") then
            match serve enums routes r with
            | .refused asked =>
              let scheme := (asked.getLast?.map (·.scheme)).getD ""
              let wantBody := if kind = "deny-all-custom-string" then (Json.str s!"denied {scheme}").compress
                else (Json.mkObj [("code", Json.str "denied"), ("scheme", Json.str scheme)]).compress
              if got.1 = denyStatus && canonBody ≠ wantBody then
                fails := fails ++ [s!"auth:custom-payload:{e}:{jstrD rq "method"} {jstrD rq "path"}:want={wantBody}:got={canonBody.take 120}"]
            | _ => pure ()
          if got ≠ want then
            let cls := diffClass denyStatus want got
            -- C12-F1: percent-encoded PATH values reach the controller undecoded on fiber (always) and on
            -- chi / echo (when the encoding is not the canonical one)
            let fid := if encodedPath && cls = "binding" && (e = "fiber" || e = "chi" || e = "echo") && got.1 = want.1 then "C12-F1:"
              -- C12-F3: fiber reads an empty header value as "no header"
              else if e = "fiber" && emptyHeader then "C12-F3:"
              else if e = "fiber" && hyphenVar then "C12-F4:" else ""
            let relevant : Bool := match prop with
              | "C02" => cls == "served"
              | "C03" => cls == "auth"
              | "C05" => cls == "binding"
              | _ => true
            if relevant then
              fails := fails ++ [fid ++ s!"{cls}:{e}:{kind}:{jstrD rq "method"} {jstrD rq "path"}:want={want.1}{want.2}:got={got.1}{got.2}"]
      if prop = "C12" then
        -- … and with a JSON-equivalent body, wherever the five answer with the same status (a request no engine
        -- serves gets each framework's own not-found page)
        let served := bodies.filter fun (_, st, _) => st ≠ "not-served"
        if served.length = bodies.length && (served.map (·.2.1)).eraseDups.length = 1 && (served.map (·.2.2)).eraseDups.length > 1 then
          let groups := (served.map (·.2.2)).eraseDups
          let minority := groups.map fun g => ((served.filter (·.2.2 = g)).map (·.1), g)
          let smallest := (minority.toArray.qsort (fun a b => a.1.length < b.1.length)).toList.head?
          fails := fails ++ [(if encodedPath then "C12-F1:" else if emptyHeader then "C12-F3:" else "") ++ s!"bodies-differ:{kind}:{jstrD rq "method"} {jstrD rq "path"}:{(smallest.map fun (es, g) => s!"{es}={g.take 200}").getD ""}"]
        -- interchangeability: whatever the model says, the five answers agree
        let distinct := (views.map (·.2)).eraseDups
        if distinct.length > 1 then
          let onlyEnc := encodedPath && (distinct.map (·.1)).eraseDups.length = 1
          let onlyFiberEmpty := emptyHeader && ((views.filter (·.1 ≠ "fiber")).map (·.2)).eraseDups.length = 1
          let onlyFiberHyphen := hyphenVar && ((views.filter (·.1 ≠ "fiber")).map (·.2)).eraseDups.length = 1
          -- both at once: a percent-encoded value (F1: chi / echo hand it over undecoded) under a hyphenated variable (F4:
          -- fiber does not route it at all) - the four other engines still answer with one status
          let encAndHyphen := encodedPath && hyphenVar && ((views.filter (·.1 ≠ "fiber")).map (·.2.1)).eraseDups.length = 1
          fails := fails ++ [(if onlyEnc then "C12-F1:" else if onlyFiberEmpty then "C12-F3:" else if onlyFiberHyphen || encAndHyphen then "C12-F4:" else "") ++ s!"engines-disagree:{kind}:{jstrD rq "method"} {jstrD rq "path"}:{views.map fun (e, v) => e ++ "=" ++ v.1}"]
      wants := wants ++ [(toString id, outcomeJson want)]
      gots := gots ++ [(toString id, Json.mkObj (views.map fun (e, v) => (e, outcomeJson v)))]
    let fails' := fails.eraseDups
    return { model := Json.mkObj wants, implView := if fails'.isEmpty then Json.mkObj wants else Json.mkObj gots, implFails := fails', nontrivial := !reqs.isEmpty, notes := notes }

def rigHandler : Handler := fun prop input impl => do
  if !(["C02", "C03", "C05", "C09", "C12"].contains prop) then throw s!"mode rig: no check for property {prop}"
  let out := checkRig prop input (impl.getD Json.null)
  let tag (pre : String) (f : String) :=
    if f.length > 4 && f.startsWith "C" && (f.splitOn "-F").length > 1 && (f.splitOn ":").length > 1 && ((f.splitOn ":")[0]!).length ≤ 8
    then pre ++ f else pre ++ "new:" ++ f
  let implFails := if impl.isNone then ["no-answer"] else out.implFails
  pure { model := out.model, implView := some out.implView, specModel := out.modelFails.isEmpty, specImpl := implFails.isEmpty,
         nontrivial := out.nontrivial,
         notes := (implFails.take 12).map (tag "implfail:") ++ (out.modelFails.take 8).map (tag "modelfail:") ++ out.notes }

end Gleece.Driver
