/-
  Source → IR on mode "proj": the reducer model (`Gleece.Reduce`, theorems in Properties/Reduce) on the
  abstract project, compared with the flattened metadata the REAL pipeline produced for the Go source
  printed from it; then the IR-level checks of the property run on that real metadata and the real
  documents / routers.
-/
import Gleece.Driver.TypesCheck
import Gleece.Model.Reduce
open Lean
namespace Gleece.Driver
open Gleece.Reduce Gleece.IR Gleece.Validate

def rParamJson (p : RParam) : Json :=
  Json.mkObj [("name", p.name), ("isContext", p.isContext), ("passedIn", p.passedIn), ("nameInSchema", p.nameInSchema), ("validator", p.validator), ("description", p.description)]

def rRouteJson (r : RRoute) : Json :=
  Json.mkObj [("opId", r.opId), ("verb", r.verb), ("path", r.path), ("hidden", r.hidden), ("deprecated", r.deprecated),
    ("security", secJson r.security), ("params", Json.arr (r.params.map rParamJson).toArray), ("hasReturn", r.hasReturn),
    ("successCode", r.successCode), ("errorCodes", Json.arr (r.errorCodes.map fun n => Json.num (JsonNumber.fromNat n)).toArray)]

def rControllerJson (c : RController) : Json :=
  Json.mkObj [("name", c.name), ("tag", c.tag), ("path", c.path), ("security", secJson c.security),
    ("routes", Json.arr (c.routes.map rRouteJson).toArray)]

def passedInLower (s : String) : String :=
  match s with
  | "Path" => "path" | "Query" => "query" | "Header" => "header" | "Body" => "body" | "Form" => "form"
  | o => o.toLower

/-- the same projection of the REAL metadata (`ir` of the implementation's answer) -/
def implControllerJson (c : Json) : Json :=
  Json.mkObj [("name", jstrD c "name"), ("tag", jstrD c "tag"), ("path", jstrD c "path"), ("security", secJson (parseSecurity c "security")),
    ("routes", Json.arr ((jarrD c "routes").toList.map fun r =>
      Json.mkObj [("opId", jstrD r "opId"), ("verb", jstrD r "verb"), ("path", jstrD r "path"), ("hidden", jboolD r "hidden"), ("deprecated", jboolD r "deprecated"),
        ("security", secJson (parseSecurity r "security")),
        ("params", Json.arr ((jarrD r "params").toList.map fun q =>
          let ctx := jboolD q "isContext"
          Json.mkObj [("name", jstrD q "name"), ("isContext", ctx), ("passedIn", if ctx then "" else passedInLower (jstrD q "passedIn")),
            ("nameInSchema", jstrD q "nameInSchema"), ("validator", jstrD q "validator"), ("description", jstrD q "description")]).toArray),
        ("hasReturn", jboolD r "hasReturnValue"), ("successCode", (jnat r "successCode").toOption.getD 0),
        ("errorCodes", Json.arr ((jarrD r "errorResponses").toList.map fun e => Json.num (JsonNumber.fromNat ((jnat e "code").toOption.getD 0))).toArray)]).toArray)]

structure ReduceOut where
  model : Json
  impl : Json
  fails : List String
  notes : List String

def reduceCheck (p : PProject) (impl : Json) : ReduceOut := Id.run do
  let ir := (impl.getObjVal? "ir").toOption.getD Json.null
  let implCtrls := (jarrD ir "controllers").toList
  let mut fails : List String := []
  let mut ms : List (String × Json) := []
  let mut is : List (String × Json) := []
  let mut notes : List String := []
  for c in p.controllers do
    if c.noEmbed then continue
    let routes := (c.methods.filter (isRoute ·.m)).map (·.m)
    match reduceController c.name c.annots p.defaultSecurity routes with
    | none => fails := fails ++ [s!"model-reducer-refuses-accepted-controller:{c.name}"]
    | some rc =>
      -- the pipeline orders controllers and routes canonically (C13): compare as sets keyed by name
      let mj := rControllerJson { rc with routes := (rc.routes.toArray.qsort (fun a b => a.opId < b.opId)).toList }
      ms := ms ++ [(c.name, mj)]
      for r in rc.routes do
        notes := notes ++ (if r.hidden then ["d:hidden-route"] else []) ++
          (if r.security.isEmpty then ["d:route-no-security"] else if (securityFromContext ((routes.find? (·.name = r.opId)).map (·.annots) |>.getD [])).isEmpty then ["d:route-inherited-security"] else ["d:route-own-security"])
  for c in implCtrls do
    let cj := implControllerJson c
    let sorted := match (cj.getObjVal? "routes").toOption with
      | some (.arr rs) => cj.setObjVal! "routes" (Json.arr ((rs.toList.toArray.qsort (fun a b => jstrD a "opId" < jstrD b "opId"))))
      | _ => cj
    is := is ++ [(jstrD c "name", sorted)]
  let mObj := Json.mkObj ms
  let iObj := Json.mkObj is
  if mObj.compress ≠ iObj.compress then
    -- name the first differing route / field
    for (n, mj) in ms do
      match is.lookup n with
      | none => fails := fails ++ [s!"controller-missing-in-metadata:{n}"]
      | some ij =>
        if mj.compress ≠ ij.compress then
          let mr := (jarrD mj "routes").toList
          let irs := (jarrD ij "routes").toList
          let mut found := false
          for r in mr do
            match irs.find? (fun x => jstrD x "opId" = jstrD r "opId") with
            | none => fails := fails ++ [s!"route-missing-in-metadata:{n}.{jstrD r "opId"}"]; found := true
            | some x =>
              if x.compress ≠ r.compress then
                let keys := ["verb", "path", "hidden", "deprecated", "security", "params", "hasReturn", "successCode", "errorCodes"]
                let bad := keys.filter fun k => ((x.getObjVal? k).toOption.map Json.compress) ≠ ((r.getObjVal? k).toOption.map Json.compress)
                fails := fails ++ [s!"reduced-route-differs:{n}.{jstrD r "opId"}:{bad}"]; found := true
          if !found then fails := fails ++ [s!"reduced-controller-differs:{n}"]
    for (n, _) in is do
      if (ms.lookup n).isNone then fails := fails ++ [s!"unexpected-controller-in-metadata:{n}"]
  return ⟨mObj, iObj, fails, notes⟩

def projIRCheck (prop : String) (p : PProject) (impl : Json) : Except String PropOut := do
  let accepted := (impl.getObjVal? "out").toOption.isSome && (impl.getObjVal? "ir").toOption.isSome
  -- C14: whatever the project looks like, the run ends with success or a reported error — never a crash
  let crash := ["runErr", "graphErr", "validateErr", "setupErr", "configErr"].filterMap fun k =>
    let e := jstrD impl k
    if (e.splitOn "PANIC").length > 1 then some (k ++ ":" ++ e.take 200) else none
  if prop = "C14" && !crash.isEmpty then
    return { model := Json.str "no-crash", implView := Json.str "crash", implFails := crash.map (s!"panic:{·}"), nontrivial := true, notes := ["d:crash"] }
  if !accepted then
    return { model := Json.str "not-accepted", implView := Json.str "not-accepted", nontrivial := false, notes := ["d:not-accepted"] }
  let d := parseIRDoc ((impl.getObjVal? "ir").toOption.getD Json.null)
  let outJ := (impl.getObjVal? "out").toOption.getD Json.null
  let irOut : PropOut ← match prop with
    | "C01" => pure (checkC01 d outJ)
    | "C04" => pure (checkC04 d outJ)
    | "C06" => pure (checkC06 d outJ)
    | "C02" | "C03" | "C05" | "C12" => pure (checkRouter prop d outJ)
    | "C08" => pure (checkC08 d outJ)
    | "C11" => pure (checkC11 d outJ)
    | "C14" => pure (checkC14 d outJ)
    | q => throw s!"mode proj: no IR-level check for property {q}"
  let rd := reduceCheck p impl
  -- C04: with enforceSecurityOnAllRoutes an ACCEPTED project has no route (hidden ones included) without security
  let enforceFails : List String :=
    if prop = "C04" && p.enforce then
      d.controllers.flatMap fun c => (c.routes.filter fun r => r.security.isEmpty).map fun r => s!"enforce-flag-bypassed:{c.name}.{r.opId}"
    else []
  return { model := Json.mkObj [("reduce", rd.model), ("emit", irOut.model)],
           implView := Json.mkObj [("reduce", if rd.fails.isEmpty then rd.impl else rd.model), ("emit", irOut.implView)],
           implFails := rd.fails ++ enforceFails ++ irOut.implFails, modelFails := irOut.modelFails, nontrivial := irOut.nontrivial,
           notes := rd.notes ++ irOut.notes ++ (if p.enforce then ["d:enforce-on"] else []) }

def projHandler3Core : Handler := fun prop input impl => do
  if !(["C01", "C04", "C06", "C02", "C03", "C05", "C12", "C08", "C11", "C14"].contains prop) then projHandler2 prop input impl else
  let p := parseProject input
  let out ← projIRCheck prop p (impl.getD Json.null)
  let tag (pre : String) (f : String) :=
    if f.length > 4 && f.startsWith "C" && (f.splitOn "-F").length > 1 && (f.splitOn ":").length > 1 && ((f.splitOn ":")[0]!).length ≤ 8
    then pre ++ f else pre ++ "new:" ++ f
  let implFails := if impl.isNone then ["no-answer"] else out.implFails
  pure { model := out.model, implView := some out.implView, specModel := out.modelFails.isEmpty, specImpl := implFails.isEmpty,
         nontrivial := out.nontrivial,
         notes := (implFails.take 8).map (tag "implfail:") ++ (out.modelFails.take 8).map (tag "modelfail:") ++ out.notes }

/-- every `proj` check: the spec generators are handed the metadata the routes generator reads next
    (`cmd.GenerateSpecAndRoutes`); if they changed it, the routes file depends on which command wrote it -/
def projHandler3 : Handler := fun prop input impl => do
  let v ← projHandler3Core prop input impl
  let changed := (impl.bind fun j => (j.getObjVal? "metaChanged").toOption.bind (·.getStr?.toOption)).getD ""
  if changed.isEmpty then pure v
  else pure { v with specImpl := false, notes := ("implfail:new:spec-generation-mutates-metadata:" ++ changed.take 160) :: v.notes }

end Gleece.Driver
