import Gleece.Model.Text
import Gleece.Model.Paths
